#!/bin/bash
# usage: tools/confirm_seed.sh <seed dir with patch.diff, demo test, meta.json>
# Confirms in a scratch copy: builds, existing suite passes with the patch, demo fails with it and passes without.
set -u
d=$(readlink -f "$1")
export GOFLAGS=-mod=mod GOPROXY=off GOSUMDB=off GOTOOLCHAIN=local
scratch=$(mktemp -d /var/tmp/verif-seed.XXXXXX)
trap 'rm -rf "$scratch"' EXIT
rsync -a --exclude .git --exclude 'zz_verif_*' /repo/ "$scratch/repo/"
cd "$scratch/repo"
pkg=$(jq -r .demo_pkg "$d/meta.json"); run=$(jq -r .demo_run "$d/meta.json")
demo=$(ls "$d"/*_test.go | head -1)
cp "$demo" "$pkg/"
clean=$(go test -vet=off -count=1 -timeout 300s -run "$run" "$pkg" 2>&1 | grep -v WARNING | tail -1)
patch -p1 -s < "$d/patch.diff" || { echo "CONFIRM $(basename $d): patch does not apply"; exit 1; }
build=$(go build ./... 2>&1 | grep -v WARNING | head -3)
mut=$(go test -vet=off -count=1 -timeout 300s -run "$run" "$pkg" 2>&1 | grep -v WARNING | tail -1)
rm -f "$pkg/$(basename $demo)"
suite=$(go test -vet=off -count=1 -timeout 25m ./... 2>&1 | grep -v WARNING | grep -c "^FAIL\|^---  FAIL\|^--- FAIL")
echo "CONFIRM $(basename $d): clean=[$clean] patched=[$mut] build=[${build:-ok}] suite_failures=$suite"
