#!/usr/bin/env python3
"""Regenerates /verif/MANIFEST.json from the claims table below."""
import json, subprocess

CLAIMS = {
 "C20": dict(
  text="Deductive proof, for every payload of 1..65535 bytes under either request prefix and every interleaving with foreign entries: contracts on tls.BreakIntoNextProtos / tls.CombineFromNextProtos (entry shape, 255-byte bound, fold specification, no-panic for arbitrary entries) plus two ghost induction lemmas (tls.lemmaBreakShape, tls.lemmaChunkRoundTrip) whose verification conditions are generated from the SSA of the real functions and discharged by cvc5/z3 on every run.",
  note="Trusted: the engine (govc), go/ssa, the solvers; library specs of fmt.Sprintf(\"%s%02d-%s\") (decimal rendering has no hyphen, width by range up to 4 digits), strings.HasPrefix/TrimPrefix/IndexByte as SMT string operations; integers mathematical; SMT strings stand for Go byte strings. Payload bound 65535 bytes (larger than any ClientHello ALPN list).",
  design="5 C20", technique="contracts + loop invariants + ghost induction lemmas, WP over go/ssa, SMT (cvc5 strings, z3)"),
}

NA = {
 "C18": "quantifies over goroutine schedules (exactly-once delivery across interleavings, Close termination, race freedom); per-function sequential contracts cannot express or decide it (DESIGN.md section 6)",
}

def main():
    props=[json.loads(l) for l in open('/verif/properties.jsonl')]
    commits=subprocess.run(['git','-C','/repo','log','--format=%h %s'],capture_output=True,text=True).stdout.strip().split('\n')
    hook_commits=[c.split()[0] for c in commits if c.split(' ',1)[1].startswith('verif:')]
    checks=[]
    for p in props:
        pid=p['id']
        if pid in CLAIMS:
            c=CLAIMS[pid]
            checks.append({
             "property_id":pid,
             "quick_cmd":f"./check {pid} quick",
             "thorough_cmd":f"./check {pid} thorough",
             "evidence_file":f"/verif/evidence/{pid}.json",
             "replay_cmd_template":"./check --replay {path}",
             "engine":"govc",
             "level_claimed":{"category":"proof","text":c['text'],"design_ref":"DESIGN.md section "+c['design']},
             "level_note":c['note'],
             "technique":c['technique'],
            })
    na=[]
    for p in props:
        pid=p['id']
        if pid not in CLAIMS:
            na.append({"property_id":pid,"reason":NA.get(pid,"not built yet (contracts for this property are not discharged yet; see DESIGN.md section 9 build order)")})
    m={"version":1,
     "setup_cmd":"./setup.sh",
     "hooks":{"guard":"verif","enable":"go build -tags verif (the verifier loads /repo with -tags verif; the tagged files contain only contract comments and uncalled ghost lemma functions)","baseline_off_cmd":"cd /repo && GOFLAGS=-mod=mod go test -vet=off -count=1 -timeout 25m ./...","source_commits":hook_commits,"add_only":True},
     "engines":[{"name":"govc","path":"govc","serves_properties":sorted(CLAIMS),"kind_free_text":"self-written Gobra-style deductive verifier for Go: contracts in verif-tagged comment files inside /repo, symbolic weakest-precondition generation over go/ssa of the real code, one SMT-LIB query per obligation instance, discharged by cvc5 / z3 4.8 / z3 5.1"}],
     "checks":checks,
     "notes":"See DESIGN.md. Every check regenerates its verification conditions from /repo's working tree. Known findings: /verif/known_findings.json.",
     "not_applicable":na}
    json.dump(m,open('/verif/MANIFEST.json','w'),indent=1)
    print(len(checks),'checks,',len(na),'not applicable; hook commits',hook_commits)
main()
