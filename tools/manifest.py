#!/usr/bin/env python3
"""Regenerates /verif/MANIFEST.json from the claims table below."""
import json, subprocess

CLAIMS = {
 "C20": dict(
  text="Deductive proof, for every payload of 1..65535 bytes under either request prefix and every interleaving with foreign entries: contracts on tls.BreakIntoNextProtos / tls.CombineFromNextProtos (entry shape, 255-byte bound, fold specification, no-panic for arbitrary entries) plus two ghost induction lemmas (tls.lemmaBreakShape, tls.lemmaChunkRoundTrip) whose verification conditions are generated from the SSA of the real functions and discharged by cvc5/z3 on every run.",
  note="Trusted: the engine (govc), go/ssa, the solvers; library specs of fmt.Sprintf(\"%s%02d-%s\") (decimal rendering has no hyphen, width by range up to 4 digits), strings.HasPrefix/TrimPrefix/IndexByte as SMT string operations; integers mathematical; SMT strings stand for Go byte strings. Payload bound 65535 bytes (larger than any ClientHello ALPN list).",
  design="5 C20", technique="contracts + loop invariants + ghost induction lemmas, WP over go/ssa, SMT (cvc5 strings, z3)"),

 "C05": dict(
  text="Deductive proof over the real tls.GenerateServerCertificates / verifyGenerateCertificatesRequest: for every request, storage state and lookup path, success without the local skip flag implies a record present in storage (by key id, or under the requested node id when the storage is a NodeIdLoader) whose Ed25519 key verifies the nonce and, when present, the client state; an error returns nothing. Contracts on the loaders (LoadNodeInformation, LoadRootCertificates, SigningParams, decryptForLoad) are proved as well.",
  note="Trusted: engine, go/ssa, solvers; idealised crypto (Verify is an uninterpreted relation, key ids injective); ghost storage contract for the Storage interface (Load fails exactly on absent entries in reliable mode); types.LoadNodeInformationSetByNodeId has a TRUSTED contract (its loop is not verified yet: every returned node is a copy of a stored record with that node id); x509/ed25519/protobuf library specs listed in the evidence file.",
  design="5 C05", technique="contracts + loop invariant, WP over go/ssa, SMT (z3, cvc5)"),
 "C11": dict(
  text="Deductive proof over the real EncryptMessage / DecryptMessage / decryptWithKey and the X25519 key-derivation methods: decryption returns nil only if the AEAD opened under the receiver's current or previous (key, key id) pair with the key id as additional data and the result is exactly the decoded plaintext; a ciphertext that opens under the current (or previous) pair is always accepted; ghost lemmas prove the encrypt/decrypt round trip and that node side and server side derive the same secret and key id; no-panic for arbitrary ciphertext including the go-kms-wrapping aead precondition len(ciphertext) >= 12.",
  note="Trusted: engine, go/ssa, solvers; AEAD idealisation (opens only under the same key and additional data; round trip), X25519 symmetry axiom dh(a,xpub(b)) == dh(b,xpub(a)), protobuf Marshal/Unmarshal inverse, go-kms-wrapping aead wrapper spec (SetConfig fails only for keys that are not 32 bytes; Decrypt requires 12 ciphertext bytes). Key sources of unknown dynamic type are deterministic functions of the interface value.",
  design="5 C11", technique="contracts + ghost lemmas, WP over go/ssa, SMT (z3, cvc5)"),
 "C03": dict(
  text="Deductive proof over the real registration.validateFetchRequestCommon and (*NodeCredentials).CreateFetchNodeCredentialsRequest: validation succeeds only if the bundle decodes to the returned info, required fields and key types are present, the signature verifies under the Ed25519 key named in the bundle, and the clock reading lies in the window widened by the configured skews (any option list); on error nothing is returned and storage is untouched (frame condition); created requests are valid from the clock reading for exactly DefaultFetchCredentialsLifetime and are signed by the credentials' own key.",
  note="Trusted: engine, go/ssa, solvers; Ed25519 idealisation; protobuf decode model; options algebra derived from the SSA of options.go on every run (application-supplied options are an arbitrary but fixed record). The ordering 'validation before any authorization decision' for FetchNodeCredentials / AuthorizeNode is carried by their contracts under C01/C13 when those are claimed.",
  design="5 C03", technique="contracts, WP over go/ssa, SMT (z3, cvc5)"),
 "C08": dict(
  text="Deductive proof over the real rotation.decideWhatToMake (full decision table over the four stored instants relative to the clock reading, both directions) and rotation.RotateRootCertificates (labels, durability: storage holds the same two roots that are returned; current valid at the call instant; next begins no later than current ends; from empty storage next begins and ends later and overlaps; keep / promote / re-mint-next / reinitialize regions with the exact shifted windows), for every option list with positive lifetime, non-positive not-before skew and non-negative not-after skew, every stored state satisfying the invariant that the function itself re-establishes, and every storage failure.",
  note="Trusted: engine, go/ssa, solvers; integers mathematical; the clock is instantaneous within one call (all readings of one call are equal) - the clock-window assumption of DESIGN.md section 4 with delta = 0; x509.CreateCertificate / ed25519 specs; ghost storage contract. Instants exactly equal to now in the second root's comparisons are left open, as the property statement does. Strict 'next begins before current ends' is proved for freshly minted pairs, the weak inequality in general (boundary instant). The from-empty clause needs lifetime + not-after skew >= 2ns (a 1ns window has no half to shift by).",
  design="5 C08", technique="contracts, WP over go/ssa, SMT linear integer arithmetic (z3, cvc5)"),

 "C09": dict(
  text="Deductive inductive-invariant proof over the real rotation.RotateRootCertificates and decideWhatToMake (closed-boundary decision regions and the exact bootstrap windows are proved from the code), and a ghost lemma rotation.lemmaTrustContinuity over that contract: [base] a bootstrap establishes the invariant J (current valid at the call instant, next begins before current ends, next lasts one more lifetime and is one lifetime wide); [step] for every stored pair satisfying J at the previous call instant t0 and every call instant t in [t0, t0 + lifetime), the new pair satisfies J and is the old pair or the promotion of the old next (the start-over and re-mint regions are unreachable); current is replaced only when its successor is valid; at every instant in [t0, t] one of the two trusted roots is valid; [nodewindow] the arithmetic of the node clause: after a promotion at most delta after the promoted root became valid, the new next begins no earlier than s + not-before skew + (span - delta)/2 for every enrollment instant s <= t, and no later than the promoted root ends.",
  note="Trusted: engine, go/ssa, solvers; integers mathematical; instantaneous clock within one call; same option values along the history, positive lifetime, non-positive not-before skew, non-negative not-after skew; storage reliable along the history (a failed call changes nothing - C13). The history-level statement is the induction over calls with the proved base and step (standard induction rule, not itself machine-checked). That a node's chains carry exactly the validity windows of their issuing roots is the C04 certificate-template clause of authorizeNodeCommon.",
  design="5 C09", technique="contracts + ghost induction lemma (inductive invariant), WP over go/ssa, SMT linear integer arithmetic"),

 "C16": dict(
  text="Deductive proof over the real getTlsConfigForClient closure, Accept, NewConn, (*Conn).ClientNextProtos / ClientState and GenerateServerCertificates: the protocol list recorded for a connection is the offered ALPN list minus exactly the certificate-preference entries, in order (loop invariant with a counting spec function, any list); Accept hands NewConn exactly the recorded list and state of the ClientInfo allocated for that connection; NewConn and ClientNextProtos copy (fresh backing array, equal contents, nil preserved); client state in a certificate response exists only when the request's client state verified under the stored record's key (C05 clauses).",
  note="Trusted: engine, go/ssa, solvers; the TLS handshake is opaque (crypto/tls runs the GetConfigForClient callback built for this connection and nothing else writes its ClientInfo); tls.ServerConfig and registration.FetchNodeCredentials have trusted (thin) contracts here; types.LoadNodeInformationSetByNodeId trusted (see C05); option closures summarised from options.go each run. That the recorded state equals what the node supplied end-to-end additionally relies on protobuf decode of the ALPN-carried request (modelled) and on the client side (tls.ClientConfigs, not under contract yet).",
  design="5 C16", technique="contracts + loop invariants + call-site assertions, WP over go/ssa, SMT (z3, cvc5 strings)"),
 "C14": dict(
  text="Deductive no-panic proof (every index, slice, nil dereference, type assertion, division and concrete dependency precondition is an obligation) for the code a remote peer can reach through the intercepting listener: the GetConfigForClient closure, Accept, CombineFromNextProtos, ContainsKnownAlpnProto, GenerateServerCertificates and its loaders, validateFetchRequestCommon, decryptWithKey / DecryptMessage, with every request-derived value arbitrary; plus the error classification of Accept: a non-nil error is temporary unless the base listener's Accept failed (or the listener's own option list is invalid).",
  note="Trusted: engine, go/ssa, solvers; library functions are total except where a concrete precondition is specified (aead Decrypt needs 12 ciphertext bytes, ed25519.Verify a 32-byte key); application-supplied storage / wrappers / logger do not panic; registration.FetchNodeCredentials and tls.ServerConfig are called through trusted contracts here (their bodies are not yet in the no-panic sweep); the liveness half (a subsequent honest node still connects) is not covered.",
  design="5 C14", technique="contracts (nopanic sweep) over go/ssa, SMT (z3, cvc5)"),
 "C15": dict(
  text="Deductive proof of the frame condition that isolation between handshakes rests on: NewInterceptingListener establishes cap(options) == len(options); under that invariant every append to an option list performed by the handshake closure writes only into arrays allocated by that handshake (obligation at each append), the closure writes only the ClientInfo of its own connection and ghost storage (frame check), and Accept allocates a fresh ClientInfo per connection.",
  note="Sequential core only: goroutine interleavings on storage and data-race freedom are not covered (DESIGN.md section 6). FetchNodeCredentials (and the appends inside validateServerLedActivationToken) are behind a trusted contract here. Trusted: engine, go/ssa, solvers; append semantics (in place iff len < cap).",
  design="5 C15", technique="contracts + frame obligations over go/ssa, SMT"),
 "C02": dict(
  text="Deductive proof of the listener-side gating: (1) the request handed to certificate generation on the authenticate branch never has skip-verification set, whatever bytes the peer sent (call-site assertion), (2) certificate generation succeeds only against a stored record whose key signed the nonce (C05 clauses, by key id or node id), (3) the TLS configuration is built with the expected public key equal to the verified request's certificate key, and the fetch waiver option is added on the fetch branch only, (4) Accept never returns a connection whose negotiated protocol has the fetch prefix.",
  note="Trusted: crypto/tls semantics (a completed server handshake used the returned config, ran VerifyConnection and negotiated a protocol from NextProtos), tls.ServerConfig / standardTlsConfig's VerifyConnection closure behind a trusted contract (not yet verified: leaf.Verify against the valid roots and SubjectKeyId == expected key), idealised crypto, ghost storage. The fall-through to the base TLS configuration is not covered.",
  design="5 C02", technique="contracts + call-site assertions over go/ssa, SMT"),

 "C01": dict(
  text="Deductive proof over the real registration.FetchNodeCredentials, AuthorizeNode, authorizeNodeCommon, validateServerLedActivationToken and validateFetchRequestCommon, for an arbitrary storage state (hence every history of operator actions) and every well-signed request: credentials are returned only if (a) storage already held a record under the request's key id with the same nonce, encryption key and certificate key, or (b) the nonce decodes to an activation token whose record existed and is removed by this call, for a key without a record, or (c) the request carries registration info opened by the configured registration wrapper that matches nonce and certificate key, or re-wrapped info with an existing record under the re-wrapping key id; a node-led request never changes storage, an unauthorized or failing request leaves every node record as it was, records of other key ids are never touched.",
  note="Trusted: engine, go/ssa, solvers; ghost Storage contract in reliable mode (Load fails exactly on absent entries; the in-memory back end is not yet proved against it); idealised crypto and KMS wrapper (opens only what it sealed); protobuf decode model; key ids injective. In case (c, re-wrapped) only the existence of the re-wrapping record is stated (the link between the record's key and DecryptMessage goes through abstract key-source functions).",
  design="5 C01", technique="contracts, WP over go/ssa, SMT (z3, cvc5)"),
 "C06": dict(
  text="Deductive proof over the real validateServerLedActivationToken, CreateServerLedActivationToken, ServerLedActivationToken.Store and LoadServerLedActivationToken: a token validates only if its record existed, the call removes it, the creation instant - taken from the sealed value when the record is sealed, with the token id as additional data - plus the configured lifetime is not before the clock reading, and the key had no node record; on any error no node record changes; the stored record is keyed by base58(HMAC(key, nonce)) of two fresh 32-byte values and holds id, state and creation time only.",
  note="Trusted: engine, go/ssa, solvers; HMAC / base58 injective (one-wayness is a cryptographic assumption, not proved); KMS wrapper idealisation; reliable storage for the 'key without record' clause. Single use across calls follows from 'validates only if the record exists' + 'success removes it' (no separate multi-call lemma).",
  design="5 C06", technique="contracts, WP over go/ssa, SMT"),
 "C10": dict(
  text="Deductive proof over the real rotation.RotateNodeCredentials: the inner request is passed on only after DecryptMessage succeeded under a key source cloned from a record loaded from storage (by key id, or one of the records of the node id); the new key is authorized with exactly that record's state; the reply is encrypted with that record as key source; the same decrypted request is used for authorize and fetch; records that existed at entry are never modified and no token changes; success requires the named record to exist (key-id path).",
  note="Trusted: engine, go/ssa, solvers; DecryptMessage / EncryptMessage / AuthorizeNode / FetchNodeCredentials contracts (proved under C11 / C01); node-id lookup through the trusted LoadNodeInformationSetByNodeId contract; the replay clause is not proved as a two-call lemma (it follows informally from AuthorizeNode refusing a key that has a record).",
  design="5 C10", technique="contracts + call-site assertions + loop invariant, WP over go/ssa, SMT"),
 "C12": dict(
  text="Deductive proof over the four Store methods and the Load functions: with a storage wrapper every listed secret field handed to Storage.Store is the wrapper's sealing of the clear value under the record-binding additional data (relational clause: exists nonce with stored ciphertext == Enc(w, clear, aad)), the record is marked with the wrapper's non-empty key id, the caller's struct keeps its clear values; loading unseals with the additional data of the loaded record, fails without a wrapper, and ghost lemmas prove store-then-load identity and that a sealed field transplanted from a record with different additional data does not open. Two open known findings: the retained previous encryption private key (PreviousEncryptionKey.PrivateKeyPkcs8) is stored in clear by NodeInformation.Store and NodeCredentials.Store.",
  note="Trusted: engine, go/ssa, solvers; KMS wrapper idealisation (Decrypt opens exactly what Encrypt produced under the same additional data); protobuf model. Known findings are listed in known_findings.json and printed as KNOWN-FINDING lines.",
  design="5 C12", technique="contracts + ghost lemmas, WP over go/ssa, SMT"),
 "C13": dict(
  text="The same contracts re-verified with the Storage contract in fault mode: every Store / Load / Remove / LoadByNodeId may fail on every path with an arbitrary error (including a spurious not-found). Proved for authorize, fetch (three modes), token creation, root rotation, node rotation and server-certificate generation: an error returns nothing; success implies the returned roots / node record / token are the stored ones; a node record is created by the token flow only after the token record is gone; records of other ids are never altered, a failed call alters none.",
  note="Trusted: engine, go/ssa, solvers; each storage operation is atomic; node-side functions (NewNodeCredentials, HandleFetchNodeCredentialsResponse) are not under contract yet.",
  design="5 C13", technique="contracts under a nondeterministically failing Storage contract, WP over go/ssa, SMT"),
}

NA = {
 "C18": "quantifies over goroutine schedules (exactly-once delivery across interleavings, Close termination, race freedom); per-function sequential contracts cannot express or decide it (DESIGN.md section 6)",
}

def main():
    props=[json.loads(l) for l in open('/verif/properties.jsonl')]
    commits=subprocess.run(['git','-C','/repo','log','--format=%h %s'],capture_output=True,text=True).stdout.strip().split('\n')
    hook_commits=[c.split()[0] for c in commits if c.split(' ',1)[1].startswith('verif:')]
    checks=[]
    for p in props:
        pid=p['id']
        if pid in CLAIMS:
            c=CLAIMS[pid]
            checks.append({
             "property_id":pid,
             "quick_cmd":f"./check {pid} quick",
             "thorough_cmd":f"./check {pid} thorough",
             "evidence_file":f"/verif/evidence/{pid}.json",
             "replay_cmd_template":"./check --replay {path}",
             "engine":"govc",
             "level_claimed":{"category":"proof","text":c['text'],"design_ref":"DESIGN.md section "+c['design']},
             "level_note":c['note'],
             "technique":c['technique'],
            })
    na=[]
    for p in props:
        pid=p['id']
        if pid not in CLAIMS:
            na.append({"property_id":pid,"reason":NA.get(pid,"not built yet (contracts for this property are not discharged yet; see DESIGN.md section 9 build order)")})
    m={"version":1,
     "setup_cmd":"./setup.sh",
     "hooks":{"guard":"verif","enable":"go build -tags verif (the verifier loads /repo with -tags verif; the tagged files contain only contract comments and uncalled ghost lemma functions)","baseline_off_cmd":"cd /repo && GOFLAGS=-mod=mod go test -vet=off -count=1 -timeout 25m ./...","source_commits":hook_commits,"add_only":True},
     "engines":[{"name":"govc","path":"govc","serves_properties":sorted(CLAIMS),"kind_free_text":"self-written Gobra-style deductive verifier for Go: contracts in verif-tagged comment files inside /repo, symbolic weakest-precondition generation over go/ssa of the real code, one SMT-LIB query per obligation instance, discharged by cvc5 / z3 4.8 / z3 5.1"}],
     "checks":checks,
     "notes":"See DESIGN.md. Every check regenerates its verification conditions from /repo's working tree. Known findings: /verif/known_findings.json.",
     "not_applicable":na}
    json.dump(m,open('/verif/MANIFEST.json','w'),indent=1)
    print(len(checks),'checks,',len(na),'not applicable; hook commits',hook_commits)
main()
