#!/bin/bash
# usage: tools/mutant.sh <patch|-R:commit> <prop> [govc flags]
# Applies a patch to a scratch copy of /repo's working tree (outside /repo and
# /verif), runs the property check against it, prints the result and removes
# the copy together with its output.
set -u
patch="$1"; prop="$2"; shift 2
export GOFLAGS=-mod=mod GOPROXY=off GOSUMDB=off GOTOOLCHAIN=local
scratch=$(mktemp -d /var/tmp/verif-mut.XXXXXX)
trap 'rm -rf "$scratch"' EXIT
mkdir -p "$scratch/repo" "$scratch/out"
rsync -a --exclude .git /repo/ "$scratch/repo/"
case "$patch" in
  -R:*) git -C /repo show "${patch#-R:}" -- . ':!*_test.go' | (cd "$scratch/repo" && patch -p1 -R -s) || { echo "MUTANT: reverse patch failed"; exit 3; } ;;
  *) patch=$(readlink -f "$patch"); (cd "$scratch/repo" && patch -p1 -s < "$patch") || { echo "MUTANT: patch failed"; exit 3; } ;;
esac
(cd "$scratch/repo" && go build ./... 2>&1 | grep -v WARNING | head -5)
/verif/bin/govc check -prop "$prop" -repo "$scratch/repo" -outdir "$scratch/out" "$@" 2>&1 | grep -v "WARNING conda" | sed "s#$scratch/out#<out>#g"
rc=${PIPESTATUS[0]}
echo "MUTANT-RESULT prop=$prop rc=$rc"
exit 0
