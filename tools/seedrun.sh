#!/bin/bash
# runs the registered check of each seeded change's property against the change (scratch copy) and prints one line per seed
cd /verif
for d in ${SEEDS:-seeded/*/}; do
  s=$(basename $d); prop=${s%-*}
  if ! jq -e --arg p "$prop" '.checks[] | select(.property_id==$p)' MANIFEST.json >/dev/null; then echo "SEED $s prop=$prop: property not claimed"; continue; fi
  out=$(tools/mutant.sh $d/patch.diff $prop 2>&1)
  rc=$(echo "$out" | grep -o "MUTANT-RESULT.*rc=[0-9]*" | grep -o "rc=[0-9]*")
  nviol=$(echo "$out" | grep -c "^VIOLATION")
  nrep=$(echo "$out" | grep "^VIOLATION" | grep -vc "no-failing-input-found")
  first=$(echo "$out" | grep "^VIOLATION" | head -1 | sed 's/.*replays\/[A-Z0-9]*\///; s/\.json.*//')
  echo "SEED $s prop=$prop $rc violations=$nviol replayed=$nrep first=$first"
done
