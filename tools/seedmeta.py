#!/usr/bin/env python3
"""Records in each seeded change's meta.json what the registered check of its property reported
(input: the log written by tools/seedrun.sh)."""
import json, re, sys, os
log = sys.argv[1] if len(sys.argv) > 1 else '/verif/work/seedrun.log'
for line in open(log):
    m = re.match(r'SEED (\S+) prop=(\S+) rc=(\d+) violations=(\d+) replayed=(\d+) first=(.*)', line.strip())
    if not m:
        m2 = re.match(r'SEED (\S+) prop=(\S+): property not claimed', line.strip())
        if m2:
            seed, prop = m2.groups()
            res = {"check": None, "note": "property not claimed; the change was not run"}
        else:
            continue
    else:
        seed, prop, rc, nv, nr, first = m.groups()
        res = {"check": f"./check {prop} quick (against a scratch copy of /repo with patch.diff applied: tools/mutant.sh)",
               "exit_code": int(rc), "violation_lines": int(nv), "violations_reproduced_by_replay_tests": int(nr),
               "first_failed_obligation": first, "detected": int(rc) == 1}
    p = f'/verif/seeded/{seed}/meta.json'
    if not os.path.exists(p):
        continue
    meta = json.load(open(p))
    meta["verif_run"] = res
    meta.setdefault("confirmed_by", "tools/confirm_seed.sh: builds, existing suite passes with the patch, demonstration test fails with it and passes without (logs: /verif/work/confirm*.log at the time)")
    json.dump(meta, open(p, 'w'), indent=1)
    print(seed, res.get("detected"))
