#!/bin/bash
# runs the whole must-fail corpus (selftest/canaries.txt); every line must end rc=1
cd /verif
miss=0
while read -r cp cpatch; do
  [ -n "$cp" ] || continue
  case "$cpatch" in -R:*) arg="$cpatch" ;; *) arg="selftest/mutants/$cpatch" ;; esac
  res=$(tools/mutant.sh "$arg" "$cp" 2>&1 | grep "MUTANT-RESULT" | grep -o "rc=[0-9]*")
  echo "canary $cp $cpatch: $res (want rc=1)"
  [ "$res" = "rc=1" ] || miss=1
done < <(grep -v '^#' selftest/canaries.txt)
[ $miss -eq 0 ] && echo "ALL CANARIES DETECTED" || echo "SELFTEST-MISS"
