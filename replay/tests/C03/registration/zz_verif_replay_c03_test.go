package registration_test

// Property-level replay test for C03: requests are processed only if signed by
// the key inside the bundle, complete, and inside the validity window widened by
// the skews; rejected requests change nothing; created requests live exactly the
// documented fetch lifetime.

import (
	"context"
	"crypto/ed25519"
	"crypto/x509"
	"testing"
	"time"

	"github.com/hashicorp/nodeenrollment"
	"github.com/hashicorp/nodeenrollment/registration"
	"github.com/hashicorp/nodeenrollment/rotation"
	"github.com/hashicorp/nodeenrollment/storage/inmem"
	"github.com/hashicorp/nodeenrollment/types"
	"google.golang.org/protobuf/proto"
	"google.golang.org/protobuf/types/known/timestamppb"
)

func TestVerifReplayC03(t *testing.T) {
	ctx := context.Background()
	st, _ := inmem.New(ctx)
	if _, err := rotation.RotateRootCertificates(ctx, st); err != nil {
		t.Fatal(err)
	}
	creds, err := types.NewNodeCredentials(ctx, st, nodeenrollment.WithSkipStorage(true))
	if err != nil {
		t.Fatal(err)
	}
	before := time.Now()
	req, err := creds.CreateFetchNodeCredentialsRequest(ctx)
	after := time.Now()
	if err != nil {
		t.Fatal(err)
	}
	info := new(types.FetchNodeCredentialsInfo)
	if err := proto.Unmarshal(req.Bundle, info); err != nil {
		t.Fatal(err)
	}
	nb, na := info.NotBefore.AsTime(), info.NotAfter.AsTime()
	if nb.Before(before.Add(-time.Second)) || nb.After(after.Add(time.Second)) || na.Sub(nb) != nodeenrollment.DefaultFetchCredentialsLifetime {
		t.Fatalf("created request window [%v, %v] is not creation time + %v", nb, na, nodeenrollment.DefaultFetchCredentialsLifetime)
	}
	rawPriv, _ := x509.ParsePKCS8PrivateKey(creds.CertificatePrivateKeyPkcs8)
	priv := rawPriv.(ed25519.PrivateKey)
	sign := func(i *types.FetchNodeCredentialsInfo) *types.FetchNodeCredentialsRequest {
		b, _ := proto.Marshal(i)
		return &types.FetchNodeCredentialsRequest{Bundle: b, BundleSignature: ed25519.Sign(priv, b)}
	}
	keyId, _ := nodeenrollment.KeyIdFromPkix(creds.CertificatePublicKeyPkix)
	mustReject := func(name string, r *types.FetchNodeCredentialsRequest, opt ...nodeenrollment.Option) {
		t.Helper()
		if _, err := registration.AuthorizeNode(ctx, st, r, opt...); err == nil {
			t.Fatalf("%s: AuthorizeNode accepted the request", name)
		}
		if resp, err := registration.FetchNodeCredentials(ctx, st, r, opt...); err == nil && resp != nil && resp.EncryptedNodeCredentials != nil {
			t.Fatalf("%s: FetchNodeCredentials answered the request", name)
		}
		if n, err := types.LoadNodeInformation(ctx, st, keyId); err == nil || n != nil {
			t.Fatalf("%s: a node record was written", name)
		}
	}
	// every single bit of the bundle and of the signature, truncations and extensions
	for i := 0; i < len(req.Bundle)*8; i += 7 {
		m := proto.Clone(req).(*types.FetchNodeCredentialsRequest)
		m.Bundle[i/8] ^= 1 << (i % 8)
		mustReject("bundle bit flip", m)
	}
	for i := 0; i < len(req.BundleSignature)*8; i++ {
		m := proto.Clone(req).(*types.FetchNodeCredentialsRequest)
		m.BundleSignature[i/8] ^= 1 << (i % 8)
		mustReject("signature bit flip", m)
	}
	for _, sig := range [][]byte{req.BundleSignature[:63], req.BundleSignature[:1], append(append([]byte{}, req.BundleSignature...), 0), append(append([]byte{}, req.BundleSignature...), req.BundleSignature...)} {
		m := proto.Clone(req).(*types.FetchNodeCredentialsRequest)
		m.BundleSignature = sig
		mustReject("signature truncated / extended", m)
	}
	// validity windows
	now := time.Now()
	type win struct {
		nb, na   *timestamppb.Timestamp
		nbS, naS time.Duration
		ok       bool
	}
	ts := timestamppb.New
	wins := []win{
		{ts(now.Add(-time.Hour)), ts(now.Add(time.Hour)), 0, 0, true},
		{ts(now.Add(time.Hour)), ts(now.Add(2 * time.Hour)), 0, 0, false},
		{ts(now.Add(-2 * time.Hour)), ts(now.Add(-time.Hour)), 0, 0, false},
		{ts(now.Add(time.Hour)), ts(now.Add(2 * time.Hour)), -2 * time.Hour, 0, true},
		{ts(now.Add(-2 * time.Hour)), ts(now.Add(-time.Hour)), 0, 2 * time.Hour, true},
		{ts(now.Add(-2 * time.Hour)), ts(now.Add(-time.Hour)), 0, 30 * time.Minute, false},
		{ts(now.Add(-time.Hour)), nil, 0, 0, false},
		{nil, ts(now.Add(-time.Hour)), 0, 0, false},
		{ts(now.Add(-time.Hour)), &timestamppb.Timestamp{Seconds: now.Add(-time.Minute).Unix(), Nanos: -1}, 0, 0, false},
		{&timestamppb.Timestamp{Seconds: now.Add(time.Hour).Unix(), Nanos: 1000000000}, ts(now.Add(2 * time.Hour)), 0, 0, false},
	}
	for wi, w := range wins {
		i := proto.Clone(info).(*types.FetchNodeCredentialsInfo)
		i.NotBefore, i.NotAfter = w.nb, w.na
		r := sign(i)
		opt := []nodeenrollment.Option{nodeenrollment.WithNotBeforeClockSkew(w.nbS), nodeenrollment.WithNotAfterClockSkew(w.naS)}
		if !w.ok {
			mustReject("window case", r, opt...)
			continue
		}
		if _, err := registration.AuthorizeNode(ctx, st, r, append(opt, nodeenrollment.WithSkipStorage(true))...); err != nil {
			t.Fatalf("window case %d: request inside its widened window refused: %v", wi, err)
		}
	}
	// required fields
	for name, f := range map[string]func(*types.FetchNodeCredentialsInfo){
		"no-nonce":    func(i *types.FetchNodeCredentialsInfo) { i.Nonce = nil },
		"no-enc-key":  func(i *types.FetchNodeCredentialsInfo) { i.EncryptionPublicKeyBytes = nil },
		"bad-keytype": func(i *types.FetchNodeCredentialsInfo) { i.CertificatePublicKeyType = types.KEYTYPE_X25519 },
		"bad-enctype": func(i *types.FetchNodeCredentialsInfo) { i.EncryptionPublicKeyType = types.KEYTYPE_ED25519 },
	} {
		i := proto.Clone(info).(*types.FetchNodeCredentialsInfo)
		f(i)
		mustReject(name, sign(i))
	}
}
