package rotation_test

// Property-level replay test for C08: after a successful rotation call storage
// and return value hold the same two labelled roots, current is valid, next
// begins before current ends; the decision regions (keep / promote / re-mint
// next / start over / reinitialize) behave as the property states.

import (
	"context"
	"testing"
	"time"

	"github.com/hashicorp/nodeenrollment"
	"github.com/hashicorp/nodeenrollment/rotation"
	"github.com/hashicorp/nodeenrollment/storage/inmem"
	"github.com/hashicorp/nodeenrollment/types"
	"google.golang.org/protobuf/proto"
	"google.golang.org/protobuf/types/known/timestamppb"
)

func sameRoot(a, b *types.RootCertificate) bool {
	return string(a.PublicKeyPkix) == string(b.PublicKeyPkix) && string(a.CertificateDer) == string(b.CertificateDer)
}

func checkInvariant(t *testing.T, ctx context.Context, st nodeenrollment.Storage, ret *types.RootCertificates, name string) {
	t.Helper()
	now := time.Now()
	stored, err := types.LoadRootCertificates(ctx, st)
	if err != nil {
		t.Fatalf("%s: load: %v", name, err)
	}
	if !sameRoot(stored.Current, ret.Current) || !sameRoot(stored.Next, ret.Next) {
		t.Fatalf("%s: stored roots differ from the returned ones", name)
	}
	if ret.Current.Id != "current" || ret.Next.Id != "next" || stored.Current.Id != "current" || stored.Next.Id != "next" {
		t.Fatalf("%s: labels %q/%q (stored %q/%q)", name, ret.Current.Id, ret.Next.Id, stored.Current.Id, stored.Next.Id)
	}
	if ret.Current.NotBefore.AsTime().After(now) || ret.Current.NotAfter.AsTime().Before(now.Add(-2*time.Second)) {
		t.Fatalf("%s: current [%v, %v] is not valid now (%v)", name, ret.Current.NotBefore.AsTime(), ret.Current.NotAfter.AsTime(), now)
	}
	if ret.Next.NotBefore.AsTime().After(ret.Current.NotAfter.AsTime()) {
		t.Fatalf("%s: next begins %v after current ends %v", name, ret.Next.NotBefore.AsTime(), ret.Current.NotAfter.AsTime())
	}
}

func TestVerifReplayC08(t *testing.T) {
	ctx := context.Background()
	life := 8 * time.Hour
	nbSkew, naSkew := -5*time.Minute, 5*time.Minute
	opts := []nodeenrollment.Option{nodeenrollment.WithCertificateLifetime(life), nodeenrollment.WithNotBeforeClockSkew(nbSkew), nodeenrollment.WithNotAfterClockSkew(naSkew)}
	st, _ := inmem.New(ctx)
	first, err := rotation.RotateRootCertificates(ctx, st, opts...)
	if err != nil {
		t.Fatal(err)
	}
	checkInvariant(t, ctx, st, first, "bootstrap")
	if !first.Next.NotBefore.AsTime().After(first.Current.NotBefore.AsTime()) || !first.Next.NotAfter.AsTime().After(first.Current.NotAfter.AsTime()) {
		t.Fatalf("bootstrap: next does not begin and end later than current")
	}
	// helper: put a stored pair with chosen instants relative to now
	set := func(cNB, cNA, nNB, nNA time.Duration) *types.RootCertificates {
		now := time.Now()
		r := proto.Clone(first).(*types.RootCertificates)
		r.Current.NotBefore, r.Current.NotAfter = timestamppb.New(now.Add(cNB)), timestamppb.New(now.Add(cNA))
		r.Next.NotBefore, r.Next.NotAfter = timestamppb.New(now.Add(nNB)), timestamppb.New(now.Add(nNA))
		if err := r.Store(ctx, st); err != nil {
			t.Fatal(err)
		}
		return r
	}
	h := time.Hour
	approx := func(a, b time.Time) bool { d := a.Sub(b); return d > -3*time.Second && d < 3*time.Second }
	// keep: current valid, next not yet valid
	old := set(-h, 7*h, 3*h, 11*h)
	got, err := rotation.RotateRootCertificates(ctx, st, opts...)
	if err != nil {
		t.Fatal(err)
	}
	if !sameRoot(got.Current, old.Current) || !sameRoot(got.Next, old.Next) {
		t.Fatalf("keep region: roots changed")
	}
	checkInvariant(t, ctx, st, got, "keep")
	// promote: next has become valid (current still valid, or expired)
	for _, cNA := range []time.Duration{3 * h, -10 * time.Minute} {
		old = set(-5*h, cNA, -h, 6*h)
		got, err = rotation.RotateRootCertificates(ctx, st, opts...)
		if err != nil {
			t.Fatal(err)
		}
		if !sameRoot(got.Current, old.Next) {
			t.Fatalf("promote region (current ends %v): current is not the previous next", cNA)
		}
		if sameRoot(got.Next, old.Next) || sameRoot(got.Next, old.Current) {
			t.Fatalf("promote region: no new next was minted")
		}
		wantNB := time.Now().Add(nbSkew).Add(6 * h / 2)
		if !approx(got.Next.NotBefore.AsTime(), wantNB) || !approx(got.Next.NotAfter.AsTime(), time.Now().Add(life).Add(naSkew).Add(6*h/2)) {
			t.Fatalf("promote region: new next window [%v, %v], want it shifted by half of the promoted root's remaining life (begin %v)", got.Next.NotBefore.AsTime(), got.Next.NotAfter.AsTime(), wantNB)
		}
		checkInvariant(t, ctx, st, got, "promote")
	}
	// re-mint only next: current valid, next expired
	old = set(-h, 6*h, -3*h, -time.Minute)
	got, err = rotation.RotateRootCertificates(ctx, st, opts...)
	if err != nil {
		t.Fatal(err)
	}
	if !sameRoot(got.Current, old.Current) || sameRoot(got.Next, old.Next) {
		t.Fatalf("re-mint region: current must be kept and next replaced")
	}
	if !approx(got.Next.NotBefore.AsTime(), time.Now().Add(nbSkew).Add(6*h/2)) {
		t.Fatalf("re-mint region: next begins %v", got.Next.NotBefore.AsTime())
	}
	checkInvariant(t, ctx, st, got, "remint")
	// start over: both expired / current not yet valid / current expired and next not ready
	for name, w := range map[string][4]time.Duration{
		"both-expired":           {-9 * h, -2 * h, -5 * h, -h},
		"current-not-yet-valid":  {h, 9 * h, 4 * h, 12 * h},
		"expired-next-not-ready": {-9 * h, -h, h, 9 * h},
	} {
		old = set(w[0], w[1], w[2], w[3])
		got, err = rotation.RotateRootCertificates(ctx, st, opts...)
		if err != nil {
			t.Fatal(err)
		}
		if sameRoot(got.Current, old.Current) || sameRoot(got.Current, old.Next) || sameRoot(got.Next, old.Next) || sameRoot(got.Next, old.Current) {
			t.Fatalf("%s: an unusable root was kept", name)
		}
		checkInvariant(t, ctx, st, got, name)
	}
	// reinitialize always replaces both
	old = set(-h, 7*h, 3*h, 11*h)
	got, err = rotation.RotateRootCertificates(ctx, st, append(opts, nodeenrollment.WithReinitializeRoots(true))...)
	if err != nil {
		t.Fatal(err)
	}
	if sameRoot(got.Current, old.Current) || sameRoot(got.Next, old.Next) || sameRoot(got.Current, old.Next) {
		t.Fatalf("reinitialize: a root was kept")
	}
	checkInvariant(t, ctx, st, got, "reinitialize")
}
