package file_test

// Property-level test for C19 against a reference model (a map from message
// type and id to the last stored message): random sequences of store, load,
// remove and list on the in-memory, file and store-once back ends.
//
// TestVerifReplayC19 (all back ends) is the replay test of the C19 contracts.
// TestVerifBoundedC19File is the BOUNDED stand-in for the file back end, which
// is not under contract (the engine has no specification of the os file-system
// calls): 150 seeds x 80 operations over 8 ids (prefixes of one another, case variants) x 4 message types. It runs on
// every check and is never counted as proved.

import (
	"context"
	"errors"
	"fmt"
	"math/rand"
	"sort"
	"testing"

	"github.com/hashicorp/nodeenrollment"
	"github.com/hashicorp/nodeenrollment/storage/file"
	"github.com/hashicorp/nodeenrollment/storage/inmem"
	storeonce "github.com/hashicorp/nodeenrollment/storage/testing"
	"github.com/hashicorp/nodeenrollment/types"
	"google.golang.org/protobuf/proto"
)

type c19Key struct {
	kind int
	id   string
}

var c19Ids = []string{"a", "ab", "abc", "b", "current", "Worker", "worker", "W"} // prefixes of one another and case variants

func c19Msg(kind int, id string, payload []byte) nodeenrollment.MessageWithId {
	switch kind {
	case 0:
		return &types.NodeCredentials{Id: id, CertificatePublicKeyPkix: payload}
	case 1:
		return &types.NodeInformation{Id: id, CertificatePublicKeyPkix: payload, NodeId: "n" + id}
	case 2:
		return &types.RootCertificates{Id: id, WrappingKeyId: fmt.Sprintf("%x", payload)}
	default:
		return &types.ServerLedActivationToken{Id: id, CreationTimeMarshaled: payload}
	}
}

func c19Run(t *testing.T, name string, st nodeenrollment.Storage, once bool, seeds, steps int) {
	ctx := context.Background()
	for seed := 1; seed <= seeds; seed++ {
		rng := rand.New(rand.NewSource(int64(seed)))
		model := map[c19Key]nodeenrollment.MessageWithId{}
		// start every seed from an empty store
		for kind := 0; kind < 4; kind++ {
			for _, id := range c19Ids {
				_ = st.Remove(ctx, c19Msg(kind, id, nil))
			}
		}
		for step := 0; step < steps; step++ {
			kind, id := rng.Intn(4), c19Ids[rng.Intn(len(c19Ids))]
			where := fmt.Sprintf("%s seed %d step %d (type %d id %q)", name, seed, step, kind, id)
			switch rng.Intn(5) {
			case 0, 1: // store; a shorter or longer payload than before
				payload := make([]byte, rng.Intn(40))
				rng.Read(payload)
				m := c19Msg(kind, id, payload)
				err := st.Store(ctx, m)
				_, had := model[c19Key{kind, id}]
				if once && kind == 1 && had {
					var dre *types.DuplicateRecordError
					if err == nil {
						t.Fatalf("%s: the store-once back end overwrote a record", where)
					}
					if !errors.As(err, &dre) && !errors.As(err, &types.DuplicateRecordError{}) {
						t.Fatalf("%s: refusal is not a duplicate-record error: %v", where, err)
					}
					break
				}
				if err != nil {
					t.Fatalf("%s: store failed: %v", where, err)
				}
				model[c19Key{kind, id}] = proto.Clone(m).(nodeenrollment.MessageWithId)
			case 2: // load
				m := c19Msg(kind, id, nil)
				err := st.Load(ctx, m)
				want, ok := model[c19Key{kind, id}]
				switch {
				case ok && err != nil:
					t.Fatalf("%s: load of a present entry failed: %v", where, err)
				case ok && !proto.Equal(m, want):
					t.Fatalf("%s: load did not return the most recently stored message:\n got  %v\n want %v", where, m, want)
				case !ok && err == nil:
					t.Fatalf("%s: load of an absent entry succeeded", where)
				case !ok && !errors.Is(err, nodeenrollment.ErrNotFound):
					t.Fatalf("%s: absent entry reported as %v, not the not-found error", where, err)
				}
			case 3: // remove
				err := st.Remove(ctx, c19Msg(kind, id, nil))
				if _, ok := model[c19Key{kind, id}]; ok && err != nil {
					t.Fatalf("%s: remove of a present entry failed: %v", where, err)
				}
				delete(model, c19Key{kind, id})
			case 4: // list
				if kind == 3 {
					if _, err := st.List(ctx, (*types.ServerLedActivationToken)(nil)); err == nil {
						t.Fatalf("%s: listing a non-listable type succeeded", where)
					}
					break
				}
				var probe proto.Message
				switch kind {
				case 0:
					probe = (*types.NodeCredentials)(nil)
				case 1:
					probe = (*types.NodeInformation)(nil)
				default:
					probe = (*types.RootCertificates)(nil)
				}
				got, err := st.List(ctx, probe)
				if err != nil {
					t.Fatalf("%s: list failed: %v", where, err)
				}
				var want []string
				for k := range model {
					if k.kind == kind {
						want = append(want, k.id)
					}
				}
				sort.Strings(want)
				got = append([]string{}, got...)
				sort.Strings(got)
				if fmt.Sprint(got) != fmt.Sprint(want) {
					t.Fatalf("%s: list returned %v, present are %v", where, got, want)
				}
			}
		}
	}
	// nil and unknown message types are refused
	var nilNI *types.NodeInformation
	for opName, err := range map[string]error{
		"store nil":        st.Store(ctx, nilNI),
		"load nil":         st.Load(ctx, nilNI),
		"remove nil":       st.Remove(ctx, nilNI),
		"store nil iface":  st.Store(ctx, nil),
		"store unknown":    st.Store(ctx, &types.RootCertificate{Id: "x"}),
		"load unknown":     st.Load(ctx, &types.RootCertificate{Id: "x"}),
		"remove unknown":   st.Remove(ctx, &types.RootCertificate{Id: "x"}),
	} {
		if err == nil {
			t.Errorf("%s: %s was not refused", name, opName)
		}
	}
}

func TestVerifReplayC19(t *testing.T) {
	ctx := context.Background()
	mem, err := inmem.New(ctx)
	if err != nil {
		t.Fatal(err)
	}
	c19Run(t, "inmem", mem, false, 60, 80)
	once, err := storeonce.New(ctx)
	if err != nil {
		t.Fatal(err)
	}
	c19Run(t, "store-once", once, true, 60, 80)
	fs, err := file.New(ctx, file.WithBaseDirectory(t.TempDir()))
	if err != nil {
		t.Fatal(err)
	}
	c19Run(t, "file", fs, false, 30, 80)
}

func TestVerifBoundedC19File(t *testing.T) {
	fs, err := file.New(context.Background(), file.WithBaseDirectory(t.TempDir()))
	if err != nil {
		t.Fatal(err)
	}
	c19Run(t, "file", fs, false, 150, 80)
}
