package tls

// Property-level replay test for C20 (run by the verifier against the real
// code when an obligation of C20 fails; see /verif/DESIGN.md). It states the
// property, not the contract: split + recombine, also interleaved with foreign
// entries, reproduces every payload that fits a ClientHello; entries carry the
// prefix and are at most 255 bytes; malformed entries never crash.

import (
	"encoding/json"
	"fmt"
	mathrand "math/rand"
	"os"
	"strconv"
	"strings"
	"testing"

	"github.com/hashicorp/nodeenrollment"
)

func verifModel() map[string]string {
	m := map[string]string{}
	_ = json.Unmarshal([]byte(os.Getenv("VERIF_MODEL")), &m)
	return m
}

func modelString(s string) string {
	s = strings.TrimSpace(s)
	if len(s) >= 2 && s[0] == '"' {
		s = s[1 : len(s)-1]
	}
	return strings.ReplaceAll(s, `""`, `"`)
}

func TestVerifReplayC20(t *testing.T) {
	r := mathrand.New(mathrand.NewSource(20))
	const alphabet = "ABCDEFGHIJKLMNOPQRSTUVWXYZabcdefghijklmnopqrstuvwxyz0123456789+/"
	gen := func(n int) string {
		b := make([]byte, n)
		for i := range b {
			b[i] = alphabet[r.Intn(len(alphabet))]
		}
		return string(b)
	}
	prefixes := []string{nodeenrollment.FetchNodeCredsNextProtoV1Prefix, nodeenrollment.AuthenticateNodeNextProtoV1Prefix}
	lengths := []int{1, 2, 3, 100, 212, 213, 214, 215, 239, 240, 241, 426, 427, 428, 429, 900, 2130, 2140, 21186, 21187, 21300, 21301, 21400, 30000, 60000}
	for n := 1; n <= 1300; n++ {
		lengths = append(lengths, n)
	}
	m := verifModel()
	if v, ok := m["value"]; ok {
		lengths = append(lengths, len(modelString(v)))
	}
	// arbitrary bytes (not only base64 text): invalid UTF-8, multi-byte runes, hyphens, NULs
	raw := func(n int) string {
		b := make([]byte, n)
		r.Read(b)
		return string(b)
	}
	special := []string{"\xff", "abc\xffdef", strings.Repeat("\xe2\x82\xac", 400), strings.Repeat("-", 500), "a-b-c", strings.Repeat("\x00", 300), raw(1), raw(213), raw(214), raw(1000), raw(5000)}
	for _, prefix := range prefixes {
		for si, value := range special {
			parts, err := BreakIntoNextProtos(prefix, value)
			if err != nil {
				t.Fatalf("special payload %d: break: %v", si, err)
			}
			for i, p := range parts {
				if !strings.HasPrefix(p, prefix) || len(p) > 255 {
					t.Fatalf("special payload %d: entry %d malformed (%d bytes)", si, i, len(p))
				}
			}
			mixed := append([]string{"h2"}, parts...)
			mixed = append(mixed, "http/1.1")
			for vi, v := range [][]string{parts, mixed} {
				got, err := CombineFromNextProtos(prefix, v)
				if err != nil || got != value {
					t.Fatalf("special payload %d variant %d: round trip differs (%d bytes back, %d wanted, err %v)", si, vi, len(got), len(value), err)
				}
			}
		}
	}
	for _, prefix := range prefixes {
		for _, n := range lengths {
			value := gen(n)
			parts, err := BreakIntoNextProtos(prefix, value)
			if err != nil {
				t.Fatalf("len %d: break: %v", n, err)
			}
			total := 0
			for i, p := range parts {
				if !strings.HasPrefix(p, prefix) {
					t.Fatalf("len %d: entry %d %q lacks the prefix", n, i, p)
				}
				if len(p) > 255 {
					t.Fatalf("len %d: entry %d is %d bytes", n, i, len(p))
				}
				total += len(p) + 1
			}
			if total > 65535 {
				continue // does not fit a ClientHello
			}
			// plain, extras after, and interleaved with foreign entries
			variants := [][]string{parts, append(append([]string{}, parts...), "h2", "http/1.1", "v1-nodee-certificate-preference-abc")}
			var mixed []string
			for i, p := range parts {
				if i%2 == 0 {
					mixed = append(mixed, "foreign-"+strconv.Itoa(i))
				}
				mixed = append(mixed, p)
				if i%3 == 1 {
					mixed = append(mixed, "00-zz", "")
				}
			}
			variants = append(variants, mixed)
			for vi, v := range variants {
				got, err := CombineFromNextProtos(prefix, v)
				if err != nil {
					t.Fatalf("len %d variant %d: combine: %v", n, vi, err)
				}
				if got != value {
					t.Fatalf("len %d variant %d (%d chunks): round trip differs: got %d bytes, want %d", n, vi, len(parts), len(got), len(value))
				}
			}
		}
	}
	// malformed entries never crash
	for _, prefix := range prefixes {
		bad := []string{prefix, prefix + "0", prefix + "00", prefix + "00-", prefix + "-", prefix + "1-x", "", "x", prefix[:5], prefix + "\x00\xff", prefix + "999999999999-y"}
		if v, ok := m["chunks"]; ok {
			bad = append(bad, modelString(v))
		}
		for i := range bad {
			func() {
				defer func() {
					if rec := recover(); rec != nil {
						t.Fatalf("CombineFromNextProtos panicked on %q: %v", bad[i], rec)
					}
				}()
				_, _ = CombineFromNextProtos(prefix, []string{bad[i]})
				_, _ = CombineFromNextProtos(prefix, bad)
			}()
		}
	}
	_ = fmt.Sprint()
}
