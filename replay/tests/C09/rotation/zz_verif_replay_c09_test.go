package rotation_test

// Property-level replay test for C09: histories of rotation calls at intervals
// shorter than the certificate lifetime never reset trust - every change
// promotes the previous next to current, and at every instant between two
// calls one of the two trusted roots is valid. Time passing between calls is
// simulated by moving the stored validity windows back by the elapsed time
// (the code compares them with the real clock).

import (
	"context"
	"math/rand"
	"testing"
	"time"

	"github.com/hashicorp/nodeenrollment"
	"github.com/hashicorp/nodeenrollment/rotation"
	"github.com/hashicorp/nodeenrollment/storage/inmem"
	"github.com/hashicorp/nodeenrollment/types"
	"google.golang.org/protobuf/proto"
	"google.golang.org/protobuf/types/known/timestamppb"
)

func c09Same(a, b *types.RootCertificate) bool {
	return string(a.PublicKeyPkix) == string(b.PublicKeyPkix)
}

func TestVerifReplayC09(t *testing.T) {
	ctx := context.Background()
	life := 10 * time.Hour
	nb, na := -5*time.Minute, 5*time.Minute
	opts := []nodeenrollment.Option{nodeenrollment.WithCertificateLifetime(life), nodeenrollment.WithNotBeforeClockSkew(nb), nodeenrollment.WithNotAfterClockSkew(na)}
	for seed := int64(1); seed <= 12; seed++ {
		rng := rand.New(rand.NewSource(seed))
		st, _ := inmem.New(ctx)
		cur, err := rotation.RotateRootCertificates(ctx, st, opts...)
		if err != nil {
			t.Fatal(err)
		}
		changes := 0
		for step := 0; step < 120; step++ {
			// elapsed time until the next call: anything shorter than the lifetime, with a
			// bias to the interesting boundaries
			var d time.Duration
			switch rng.Intn(4) {
			case 0:
				d = time.Duration(rng.Int63n(int64(life)))
			case 1:
				d = life - time.Duration(1+rng.Int63n(int64(time.Minute)))
			case 2:
				d = time.Duration(rng.Int63n(int64(time.Hour)))
			default:
				d = life/2 + time.Duration(rng.Int63n(int64(life/2)))
			}
			shifted := proto.Clone(cur).(*types.RootCertificates)
			for _, r := range []*types.RootCertificate{shifted.Current, shifted.Next} {
				r.NotBefore = timestamppb.New(r.NotBefore.AsTime().Add(-d))
				r.NotAfter = timestamppb.New(r.NotAfter.AsTime().Add(-d))
			}
			if err := shifted.Store(ctx, st); err != nil {
				t.Fatal(err)
			}
			// between the calls one of the two trusted roots is valid at every instant: the
			// windows must touch or overlap and cover [previous call, this call]
			now := time.Now()
			if shifted.Current.NotAfter.AsTime().Before(now) && shifted.Next.NotBefore.AsTime().After(shifted.Current.NotAfter.AsTime()) {
				t.Fatalf("seed %d step %d: a gap between the end of current and the beginning of next", seed, step)
			}
			if shifted.Current.NotAfter.AsTime().Before(now) && shifted.Next.NotAfter.AsTime().Before(now) {
				t.Fatalf("seed %d step %d: both roots expired %v after the previous call", seed, step, d)
			}
			next, err := rotation.RotateRootCertificates(ctx, st, opts...)
			if err != nil {
				t.Fatal(err)
			}
			switch {
			case c09Same(next.Current, shifted.Current) && c09Same(next.Next, shifted.Next):
			case c09Same(next.Current, shifted.Next) && !c09Same(next.Next, shifted.Next) && !c09Same(next.Next, shifted.Current):
				changes++
				// the dropped root's successor is valid now
				if next.Current.NotBefore.AsTime().After(time.Now()) || next.Current.NotAfter.AsTime().Before(now) {
					t.Fatalf("seed %d step %d: current was replaced by a root that is not valid", seed, step)
				}
			default:
				t.Fatalf("seed %d step %d (elapsed %v): trust was reset - the new pair is neither the old pair nor the promotion of the old next", seed, step, d)
			}
			if next.Next.NotBefore.AsTime().After(next.Current.NotAfter.AsTime()) {
				t.Fatalf("seed %d step %d: next begins after current ends", seed, step)
			}
			if next.Next.NotAfter.AsTime().Before(time.Now().Add(life - time.Second)) {
				t.Fatalf("seed %d step %d: next does not last another lifetime", seed, step)
			}
			cur = next
		}
		if changes == 0 {
			t.Fatalf("seed %d: no promotion in 120 steps", seed)
		}
	}
}
