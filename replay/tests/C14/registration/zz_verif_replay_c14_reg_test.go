package registration_test

// Property-level replay test for C14 (request validation reachable from a
// remote ClientHello): well-formed requests whose certificate key is valid
// PKIX but not Ed25519 are refused with an error - never a panic.

import (
	"context"
	"crypto/ecdsa"
	"crypto/elliptic"
	"crypto/rand"
	"crypto/x509"
	"testing"
	"time"

	"github.com/hashicorp/nodeenrollment"
	"github.com/hashicorp/nodeenrollment/registration"
	"github.com/hashicorp/nodeenrollment/types"
	"google.golang.org/protobuf/proto"
	"google.golang.org/protobuf/types/known/timestamppb"
)

func TestVerifReplayC14NonEd25519Key(t *testing.T) {
	ctx := context.Background()
	st, _, _ := vrServer(t)
	ec, err := ecdsa.GenerateKey(elliptic.P256(), rand.Reader)
	if err != nil {
		t.Fatal(err)
	}
	ecPkix, err := x509.MarshalPKIXPublicKey(&ec.PublicKey)
	if err != nil {
		t.Fatal(err)
	}
	nonce := make([]byte, nodeenrollment.NonceSize)
	rand.Read(nonce)
	for _, pkix := range [][]byte{ecPkix, ecPkix[:len(ecPkix)-1], {0x30, 0x00}, nil} {
		info := &types.FetchNodeCredentialsInfo{
			CertificatePublicKeyPkix: pkix, CertificatePublicKeyType: types.KEYTYPE_ED25519, Nonce: nonce,
			EncryptionPublicKeyBytes: make([]byte, 32), EncryptionPublicKeyType: types.KEYTYPE_X25519,
			NotBefore: timestamppb.New(time.Now().Add(-time.Minute)), NotAfter: timestamppb.New(time.Now().Add(time.Minute)),
		}
		bundle, _ := proto.Marshal(info)
		req := &types.FetchNodeCredentialsRequest{Bundle: bundle, BundleSignature: make([]byte, 64)}
		for name, call := range map[string]func() error{
			"FetchNodeCredentials": func() error { _, err := registration.FetchNodeCredentials(ctx, st, req); return err },
			"AuthorizeNode":        func() error { _, err := registration.AuthorizeNode(ctx, st, req); return err },
		} {
			func() {
				defer func() {
					if r := recover(); r != nil {
						t.Errorf("%s panicked on a request with a %d-byte non-Ed25519 certificate key: %v", name, len(pkix), r)
					}
				}()
				if err := call(); err == nil {
					t.Errorf("%s accepted a request whose certificate key is not Ed25519", name)
				}
			}()
		}
	}
}
