package tls_test

// Property-level replay test for C05: server certificates (and client state)
// only against a nonce / state signed by the key of a stored node record, for
// both lookup paths and every position of the matching record.

import (
	"context"
	"crypto/ed25519"
	"crypto/rand"
	"crypto/x509"
	"fmt"
	"testing"

	"github.com/hashicorp/nodeenrollment"
	"github.com/hashicorp/nodeenrollment/rotation"
	"github.com/hashicorp/nodeenrollment/storage/inmem"
	nodetls "github.com/hashicorp/nodeenrollment/tls"
	"github.com/hashicorp/nodeenrollment/types"
	"google.golang.org/protobuf/proto"
	"google.golang.org/protobuf/types/known/structpb"
)

// orderedStore is an in-memory storage that answers node-id lookups with the records in a fixed order.
type orderedStore struct {
	*inmem.Storage
	order []string
}

func (o *orderedStore) LoadByNodeId(ctx context.Context, msg nodeenrollment.MessageWithNodeId) error {
	set := msg.(*types.NodeInformationSet)
	var out []*types.NodeInformation
	for _, id := range o.order {
		n := &types.NodeInformation{Id: id}
		if err := o.Load(ctx, n); err == nil && n.NodeId == set.NodeId {
			out = append(out, n)
		}
	}
	if len(out) == 0 {
		return nodeenrollment.ErrNotFound
	}
	set.Nodes = out
	return nil
}

type key struct {
	pub  ed25519.PublicKey
	priv ed25519.PrivateKey
	pkix []byte
	id   string
}

func newKey(t *testing.T) key {
	pub, priv, err := ed25519.GenerateKey(rand.Reader)
	if err != nil {
		t.Fatal(err)
	}
	pkix, _ := x509.MarshalPKIXPublicKey(pub)
	id, _ := nodeenrollment.KeyIdFromPkix(pkix)
	return key{pub, priv, pkix, id}
}

func TestVerifReplayC16Tls(t *testing.T) {
	ctx := context.Background()
	for _, nrec := range []int{1, 2, 3} {
		for pos := -1; pos < nrec; pos++ { // position of the record whose key signs (-1: an unregistered key signs)
			for _, path := range []string{"keyid", "nodeid", "nodeid-ownkey"} {
				for _, stateMode := range []string{"none", "good", "forged", "unsigned", "otherkey"} {
					base, _ := inmem.New(ctx)
					st := &orderedStore{Storage: base}
					if _, err := rotation.RotateRootCertificates(ctx, st); err != nil {
						t.Fatal(err)
					}
					keys := make([]key, nrec)
					for i := range keys {
						keys[i] = newKey(t)
						n := &types.NodeInformation{Id: keys[i].id, NodeId: "node-1", CertificatePublicKeyPkix: keys[i].pkix, CertificatePublicKeyType: types.KEYTYPE_ED25519}
						if err := n.Store(ctx, st); err != nil {
							t.Fatal(err)
						}
						st.order = append(st.order, keys[i].id)
					}
					other := newKey(t) // registered under a different node id
					on := &types.NodeInformation{Id: other.id, NodeId: "node-2", CertificatePublicKeyPkix: other.pkix, CertificatePublicKeyType: types.KEYTYPE_ED25519}
					if err := on.Store(ctx, st); err != nil {
						t.Fatal(err)
					}
					signer := newKey(t)
					if pos >= 0 {
						signer = keys[pos]
					}
					nonce := make([]byte, 32)
					rand.Read(nonce)
					req := &types.GenerateServerCertificatesRequest{Nonce: nonce, NonceSignature: ed25519.Sign(signer.priv, nonce), CertificatePublicKeyPkix: signer.pkix}
					if path == "nodeid" {
						req.NodeId = "node-1"
						req.CertificatePublicKeyPkix = keys[0].pkix
					}
					if path == "nodeid-ownkey" {
						// names a registered node id but presents (and signs with) its own key
						req.NodeId = "node-1"
					}
					want := pos >= 0
					if stateMode != "none" {
						s, _ := structpb.NewStruct(map[string]interface{}{"role": "admin"})
						req.ClientState, _ = proto.Marshal(s)
						switch stateMode {
						case "good":
							req.ClientStateSignature = ed25519.Sign(signer.priv, req.ClientState)
						case "forged":
							req.ClientStateSignature = ed25519.Sign(signer.priv, req.ClientState)
							req.ClientStateSignature[3] ^= 1
							want = false
						case "unsigned":
							want = false
						case "otherkey":
							req.ClientStateSignature = ed25519.Sign(other.priv, req.ClientState)
							want = false
						}
					}
					name := fmt.Sprintf("records=%d signerpos=%d path=%s state=%s", nrec, pos, path, stateMode)
					resp, err := nodetls.GenerateServerCertificates(ctx, st, req)
					if want && err != nil {
						t.Fatalf("%s: honest request refused: %v", name, err)
					}
					if !want && (err == nil || resp != nil) {
						t.Fatalf("%s: certificates (client state %v) were issued without a valid signature by a stored record's key", name, resp.GetClientState())
					}
				}
			}
		}
	}
}
