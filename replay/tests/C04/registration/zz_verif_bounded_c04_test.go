package registration_test

// BOUNDED stand-in for the "on every storage back end" clause of C04: the
// contracts of the enrollment flows are proved against the ghost Storage
// contract, not against the three back ends. This test runs honest
// enrollments (operator-authorized, activation token, wrapper-based twice with
// a shrinking record) on the in-memory, file and store-once back ends, with and
// without a storage wrapper: 3 back ends x 2 x 4 flows; and, per back end, the
// operator flow under a pooled (multi-key) storage wrapper whose encrypting key
// is rotated between the operator's authorization and the node's fetch (records
// sealed under the earlier key stay readable through the pool). It runs on
// every check and is not counted as proved.

import (
	"bytes"
	"context"
	"testing"

	wrapping "github.com/hashicorp/go-kms-wrapping/v2"
	"github.com/hashicorp/go-kms-wrapping/v2/aead"
	"github.com/hashicorp/go-kms-wrapping/v2/extras/multi"
	"github.com/hashicorp/nodeenrollment"
	"github.com/hashicorp/nodeenrollment/registration"
	"github.com/hashicorp/nodeenrollment/rotation"
	"github.com/hashicorp/nodeenrollment/storage/file"
	"github.com/hashicorp/nodeenrollment/storage/inmem"
	storeonce "github.com/hashicorp/nodeenrollment/storage/testing"
	"github.com/hashicorp/nodeenrollment/types"
	"google.golang.org/protobuf/proto"
	"google.golang.org/protobuf/types/known/structpb"
)

func TestVerifBoundedC04Backends(t *testing.T) {
	ctx := context.Background()
	backends := map[string]func() nodeenrollment.Storage{
		"inmem": func() nodeenrollment.Storage { s, _ := inmem.New(ctx); return s },
		"file": func() nodeenrollment.Storage {
			s, err := file.New(ctx, file.WithBaseDirectory(t.TempDir()))
			if err != nil {
				t.Fatal(err)
			}
			return s
		},
		"store-once": func() nodeenrollment.Storage { s, _ := storeonce.New(ctx); return s },
	}
	for bname, mk := range backends {
		vbC04PooledRotation(t, bname, mk())
		for _, wrapped := range []bool{false, true} {
			st := mk()
			var sopt []nodeenrollment.Option
			if wrapped {
				sopt = append(sopt, nodeenrollment.WithStorageWrapper(aead.TestWrapper(t)))
			}
			name := bname
			if wrapped {
				name += " (storage wrapper)"
			}
			if _, err := rotation.RotateRootCertificates(ctx, st, sopt...); err != nil {
				t.Fatalf("%s: %v", name, err)
			}
			check := func(flow string, creds *types.NodeCredentials, resp *types.FetchNodeCredentialsResponse, err error, nopt ...nodeenrollment.Option) {
				t.Helper()
				if err != nil || !vrOpens(creds, resp, nopt...) {
					t.Errorf("%s, %s: honest node got no usable response (%v)", name, flow, err)
					return
				}
				keyId, _ := nodeenrollment.KeyIdFromPkix(creds.CertificatePublicKeyPkix)
				rec, err := types.LoadNodeInformation(ctx, st, keyId, sopt...)
				if err != nil {
					t.Errorf("%s, %s: the stored node record cannot be loaded: %v", name, flow, err)
					return
				}
				mine := proto.Clone(creds).(*types.NodeCredentials)
				mine.ServerEncryptionPublicKeyBytes, mine.ServerEncryptionPublicKeyType = resp.ServerEncryptionPublicKeyBytes, resp.ServerEncryptionPublicKeyType
				inner := new(types.NodeCredentials)
				if err := nodeenrollment.DecryptMessage(ctx, resp.EncryptedNodeCredentials, mine, inner); err != nil {
					t.Errorf("%s, %s: %v", name, flow, err)
					return
				}
				if len(rec.CertificateBundles) != len(inner.CertificateBundles) || len(rec.CertificateBundles) != 2 || !bytes.Equal(rec.CertificateBundles[0].CertificateDer, inner.CertificateBundles[0].CertificateDer) || !bytes.Equal(rec.RegistrationNonce, inner.RegistrationNonce) {
					t.Errorf("%s, %s: the stored node record differs from what the response was built from", name, flow)
				}
			}
			// operator-authorized
			creds, req, _, _ := vrFreshNode(t)
			if _, err := registration.AuthorizeNode(ctx, st, req, sopt...); err != nil {
				t.Fatalf("%s: %v", name, err)
			}
			resp, err := registration.FetchNodeCredentials(ctx, st, req, sopt...)
			check("operator flow", creds, resp, err)
			// activation token
			_, tok, err := registration.CreateServerLedActivationToken(ctx, st, &types.ServerLedRegistrationRequest{}, sopt...)
			if err != nil {
				t.Fatalf("%s: %v", name, err)
			}
			tc, treq, _, _ := vrFreshNode(t, nodeenrollment.WithActivationToken(tok))
			resp, err = registration.FetchNodeCredentials(ctx, st, treq, sopt...)
			check("token flow", tc, resp, err, nodeenrollment.WithActivationToken(tok))
			// wrapper-based, twice: first with a large state, then with none (the record shrinks)
			if bname == "store-once" {
				continue // a second registration of the same key is refused by design on this back end
			}
			rw := aead.TestWrapper(t)
			wc, wreq, wKey, _ := vrFreshNode(t, nodeenrollment.WithRegistrationWrapper(rw))
			big := map[string]interface{}{}
			for i := 0; i < 40; i++ {
				big[string(rune('a'+i%26))+string(rune('A'+i/26))] = "some application state that makes the record long"
			}
			state, _ := structpb.NewStruct(big)
			wopt := append(append([]nodeenrollment.Option{}, sopt...), nodeenrollment.WithRegistrationWrapper(rw))
			resp, err = registration.FetchNodeCredentials(ctx, st, wreq, append(wopt, nodeenrollment.WithState(state))...)
			check("wrapper flow with state", wc, resp, err)
			resp, err = registration.FetchNodeCredentials(ctx, st, wreq, wopt...)
			check("wrapper flow again without state", wc, resp, err)
			if rec, err := types.LoadNodeInformation(ctx, st, wKey, sopt...); err == nil && rec.State != nil {
				t.Errorf("%s: after re-registration without state the stored record still carries the old state", name)
			}
		}
	}
}

// vbC04PooledRotation: operator flow on st under a pooled storage wrapper; the
// encrypting key moves on between AuthorizeNode and FetchNodeCredentials.
func vbC04PooledRotation(t *testing.T, bname string, st nodeenrollment.Storage) {
	t.Helper()
	ctx := context.Background()
	name := bname + " (pooled storage wrapper, key rotated between authorize and fetch)"
	mk := func(id string) wrapping.Wrapper {
		w := aead.TestWrapper(t)
		if _, err := w.SetConfig(ctx, wrapping.WithKeyId(id)); err != nil {
			t.Fatal(err)
		}
		return w
	}
	oldKey, newKey := mk("verif-kms-key-v1"), mk("verif-kms-key-v2")
	pool, err := multi.NewPooledWrapper(ctx, oldKey)
	if err != nil {
		t.Fatal(err)
	}
	sopt := nodeenrollment.WithStorageWrapper(pool)
	if _, err := rotation.RotateRootCertificates(ctx, st, sopt); err != nil {
		t.Fatalf("%s: %v", name, err)
	}
	creds, req, keyId, _ := vrFreshNode(t)
	if _, err := registration.AuthorizeNode(ctx, st, req, sopt); err != nil {
		t.Fatalf("%s: %v", name, err)
	}
	if ok, err := pool.SetEncryptingWrapper(ctx, newKey); err != nil || !ok {
		t.Fatalf("%s: set-up: cannot rotate the pool's encrypting key (%v)", name, err)
	}
	if cur, _ := pool.KeyId(ctx); cur != "verif-kms-key-v2" {
		t.Skipf("%s: set-up: pool reports key id %q", name, cur)
	}
	resp, err := registration.FetchNodeCredentials(ctx, st, req, sopt)
	if err != nil || !vrOpens(creds, resp) {
		t.Errorf("%s: honest node got no usable response (%v)", name, err)
		return
	}
	rec, err := types.LoadNodeInformation(ctx, st, keyId, sopt)
	if err != nil || len(rec.CertificateBundles) != 2 {
		t.Errorf("%s: the stored node record cannot be loaded after the fetch: %v", name, err)
	}
}
