package registration_test

// Property-level replay test for C04: what an honest node receives in every
// enrollment flow (with and without a storage wrapper), what the certificates
// look like, that the stored record is the one the response was built from,
// and that the node refuses responses it cannot open or that echo another nonce.

import (
	"bytes"
	"context"
	"crypto/ed25519"
	"crypto/rand"
	"crypto/x509"
	"testing"

	"github.com/hashicorp/go-kms-wrapping/v2/aead"
	"github.com/hashicorp/nodeenrollment"
	"github.com/hashicorp/nodeenrollment/registration"
	"github.com/hashicorp/nodeenrollment/storage/inmem"
	nodetls "github.com/hashicorp/nodeenrollment/tls"
	"github.com/hashicorp/nodeenrollment/types"
	"golang.org/x/crypto/curve25519"
	"google.golang.org/protobuf/proto"
)

func c04Check(t *testing.T, name string, st *vrStorage, sopt []nodeenrollment.Option, creds *types.NodeCredentials, req *types.FetchNodeCredentialsRequest, resp *types.FetchNodeCredentialsResponse, nopt ...nodeenrollment.Option) {
	t.Helper()
	ctx := context.Background()
	if resp == nil || len(resp.EncryptedNodeCredentials) == 0 {
		t.Errorf("%s: honest node got no credentials", name)
		return
	}
	info := new(types.FetchNodeCredentialsInfo)
	if err := proto.Unmarshal(req.Bundle, info); err != nil {
		t.Fatal(err)
	}
	roots, err := types.LoadRootCertificates(ctx, st, sopt...)
	if err != nil {
		t.Fatal(err)
	}
	// signed by the current root
	curCert, err := x509.ParseCertificate(roots.Current.CertificateDer)
	if err != nil {
		t.Fatal(err)
	}
	if !ed25519.Verify(curCert.PublicKey.(ed25519.PublicKey), resp.EncryptedNodeCredentials, resp.EncryptedNodeCredentialsSignature) {
		t.Errorf("%s: the response is not signed by the server's current root", name)
	}
	// opens with the node's key only
	stranger, _, _, _ := vrFreshNode(t)
	sc := proto.Clone(stranger).(*types.NodeCredentials)
	sc.ServerEncryptionPublicKeyBytes, sc.ServerEncryptionPublicKeyType = resp.ServerEncryptionPublicKeyBytes, resp.ServerEncryptionPublicKeyType
	if err := nodeenrollment.DecryptMessage(ctx, resp.EncryptedNodeCredentials, sc, new(types.NodeCredentials)); err == nil {
		t.Errorf("%s: the response opens with a key other than the one in the signed request", name)
	}
	mine := proto.Clone(creds).(*types.NodeCredentials)
	mine.ServerEncryptionPublicKeyBytes, mine.ServerEncryptionPublicKeyType = resp.ServerEncryptionPublicKeyBytes, resp.ServerEncryptionPublicKeyType
	inner := new(types.NodeCredentials)
	if err := nodeenrollment.DecryptMessage(ctx, resp.EncryptedNodeCredentials, mine, inner); err != nil {
		t.Errorf("%s: the response does not open with the node's key: %v", name, err)
		return
	}
	if !bytes.Equal(inner.RegistrationNonce, info.Nonce) {
		t.Errorf("%s: the response does not echo the request's nonce", name)
	}
	// one chain per root, current and next
	if len(inner.CertificateBundles) != 2 || !bytes.Equal(inner.CertificateBundles[0].CaCertificateDer, roots.Current.CertificateDer) || !bytes.Equal(inner.CertificateBundles[1].CaCertificateDer, roots.Next.CertificateDer) {
		t.Errorf("%s: the response does not carry one chain per server root (current, next)", name)
		return
	}
	keyId, _ := nodeenrollment.KeyIdFromPkix(creds.CertificatePublicKeyPkix)
	nodePub, _ := x509.ParsePKIXPublicKey(creds.CertificatePublicKeyPkix)
	for i, b := range inner.CertificateBundles {
		leaf, err := x509.ParseCertificate(b.CertificateDer)
		if err != nil {
			t.Fatal(err)
		}
		ca, err := x509.ParseCertificate(b.CaCertificateDer)
		if err != nil {
			t.Fatal(err)
		}
		switch {
		case leaf.IsCA || leaf.KeyUsage&x509.KeyUsageCertSign != 0:
			t.Errorf("%s: certificate %d is a CA certificate", name, i)
		case len(leaf.ExtKeyUsage) != 1 || leaf.ExtKeyUsage[0] != x509.ExtKeyUsageClientAuth:
			t.Errorf("%s: certificate %d is not a client-authentication-only leaf: %v", name, i, leaf.ExtKeyUsage)
		case !nodePub.(ed25519.PublicKey).Equal(leaf.PublicKey):
			t.Errorf("%s: certificate %d is not for the node's certificate key", name, i)
		case leaf.Subject.CommonName != keyId:
			t.Errorf("%s: certificate %d is named %q, not by the node's key id", name, i, leaf.Subject.CommonName)
		case leaf.NotAfter.After(ca.NotAfter) || leaf.NotBefore.Before(ca.NotBefore):
			t.Errorf("%s: certificate %d is valid beyond its issuing root", name, i)
		case leaf.CheckSignatureFrom(ca) != nil:
			t.Errorf("%s: certificate %d is not signed by its root", name, i)
		}
	}
	// the stored record is what the response was built from
	rec, err := types.LoadNodeInformation(ctx, st, keyId, sopt...)
	if err != nil {
		t.Errorf("%s: no stored node record: %v", name, err)
		return
	}
	pub, _ := curve25519.X25519(rec.ServerEncryptionPrivateKeyBytes, curve25519.Basepoint)
	if !bytes.Equal(pub, resp.ServerEncryptionPublicKeyBytes) || !bytes.Equal(rec.RegistrationNonce, inner.RegistrationNonce) || !bytes.Equal(rec.EncryptionPublicKeyBytes, info.EncryptionPublicKeyBytes) || len(rec.CertificateBundles) != 2 ||
		!bytes.Equal(rec.CertificateBundles[0].CertificateDer, inner.CertificateBundles[0].CertificateDer) || !bytes.Equal(rec.CertificateBundles[1].CertificateDer, inner.CertificateBundles[1].CertificateDer) {
		t.Errorf("%s: the stored node record differs from what the response was built from", name)
	}
	// the node accepts it and gets working client TLS configurations
	ns, _ := inmem.New(ctx)
	got, err := proto.Clone(creds).(*types.NodeCredentials).HandleFetchNodeCredentialsResponse(ctx, ns, resp, nopt...)
	if err != nil {
		t.Errorf("%s: the honest node refuses the response: %v", name, err)
		return
	}
	stored, err := types.LoadNodeCredentials(ctx, ns, nodeenrollment.CurrentId)
	if err != nil || len(stored.CertificateBundles) != 2 {
		t.Errorf("%s: node credentials not stored (%v)", name, err)
		return
	}
	cfgs, err := nodetls.ClientConfigs(ctx, stored)
	if err != nil || len(cfgs) == 0 {
		t.Errorf("%s: stored node credentials yield no client TLS configuration (%v)", name, err)
	}
	_ = got
}

func TestVerifReplayC04(t *testing.T) {
	ctx := context.Background()
	for _, wrapped := range []bool{false, true} {
		var sopt []nodeenrollment.Option
		if wrapped {
			sopt = append(sopt, nodeenrollment.WithStorageWrapper(aead.TestWrapper(t)))
		}
		st := vrNew(t)
		if _, err := rotationRoots(ctx, st, sopt...); err != nil {
			t.Fatal(err)
		}
		with := func(o ...nodeenrollment.Option) []nodeenrollment.Option {
			return append(append([]nodeenrollment.Option{}, sopt...), o...)
		}
		sfx := map[bool]string{false: "", true: " (storage wrapper)"}[wrapped]
		// operator-authorized
		creds, req, _, _ := vrFreshNode(t)
		if _, err := registration.AuthorizeNode(ctx, st, req, sopt...); err != nil {
			t.Fatal(err)
		}
		resp, err := registration.FetchNodeCredentials(ctx, st, req, sopt...)
		if err != nil {
			t.Fatalf("operator flow: %v", err)
		}
		c04Check(t, "operator flow"+sfx, st, sopt, creds, req, resp)
		bystander, bystanderId := proto.Clone(creds).(*types.NodeCredentials), ""
		{
			ns, _ := inmem.New(ctx)
			b, err := bystander.HandleFetchNodeCredentialsResponse(ctx, ns, resp)
			if err != nil {
				t.Fatal(err)
			}
			bystander = b
			bystanderId, _ = nodeenrollment.KeyIdFromPkix(bystander.CertificatePublicKeyPkix)
		}
		// authorized request re-signed with another encryption key: whatever comes back must not open with the old key
		other, otherReq, _, _ := vrFreshNode(t)
		oi := new(types.FetchNodeCredentialsInfo)
		proto.Unmarshal(otherReq.Bundle, oi)
		altered := vrResign(t, creds, req, func(i *types.FetchNodeCredentialsInfo) { i.EncryptionPublicKeyBytes = oi.EncryptionPublicKeyBytes })
		if r2, err := registration.FetchNodeCredentials(ctx, st, altered, sopt...); err == nil && r2 != nil && len(r2.EncryptedNodeCredentials) > 0 {
			if vrOpens(creds, r2) {
				t.Errorf("operator flow%s: a response to a request signed for another encryption key opens with the stored key, not the one in the signed request", sfx)
			}
		}
		_ = other
		// activation token
		_, tok, err := registration.CreateServerLedActivationToken(ctx, st, &types.ServerLedRegistrationRequest{}, sopt...)
		if err != nil {
			t.Fatal(err)
		}
		tc, treq, _, _ := vrFreshNode(t, nodeenrollment.WithActivationToken(tok))
		resp, err = registration.FetchNodeCredentials(ctx, st, treq, sopt...)
		if err != nil {
			t.Fatalf("token flow: %v", err)
		}
		c04Check(t, "token flow"+sfx, st, sopt, tc, treq, resp, nodeenrollment.WithActivationToken(tok))
		// wrapper-based
		rw := aead.TestWrapper(t)
		wc, wreq, _, _ := vrFreshNode(t, nodeenrollment.WithRegistrationWrapper(rw))
		resp, err = registration.FetchNodeCredentials(ctx, st, wreq, with(nodeenrollment.WithRegistrationWrapper(rw))...)
		if err != nil {
			t.Fatalf("wrapper flow: %v", err)
		}
		c04Check(t, "wrapper flow"+sfx, st, sopt, wc, wreq, resp)
		// re-wrapped by a registered node
		rc, rreq, _, _ := vrFreshNode(t)
		ri := new(types.FetchNodeCredentialsInfo)
		proto.Unmarshal(rreq.Bundle, ri)
		sealed, err := nodeenrollment.EncryptMessage(ctx, &types.WrappingRegistrationFlowInfo{Nonce: ri.Nonce, CertificatePublicKeyPkix: ri.CertificatePublicKeyPkix}, bystander)
		if err != nil {
			t.Fatal(err)
		}
		rreq.RewrappedWrappingRegistrationFlowInfo, rreq.RewrappingKeyId = sealed, bystanderId
		resp, err = registration.FetchNodeCredentials(ctx, st, rreq, sopt...)
		if err != nil {
			t.Fatalf("re-wrapped flow: %v", err)
		}
		c04Check(t, "re-wrapped flow"+sfx, st, sopt, rc, rreq, resp)

		// the node refuses what it cannot open or what echoes another nonce
		nc, nreq, nKeyId, _ := vrFreshNode(t)
		if _, err := registration.AuthorizeNode(ctx, st, nreq, sopt...); err != nil {
			t.Fatal(err)
		}
		good, err := registration.FetchNodeCredentials(ctx, st, nreq, sopt...)
		if err != nil {
			t.Fatal(err)
		}
		refuse := func(name string, r *types.FetchNodeCredentialsResponse) {
			t.Helper()
			ns, _ := inmem.New(ctx)
			c := proto.Clone(nc).(*types.NodeCredentials)
			if out, err := c.HandleFetchNodeCredentialsResponse(ctx, ns, r); err == nil {
				t.Errorf("node%s accepted %s (bundles now %d)", sfx, name, len(out.CertificateBundles))
				return
			}
			if _, err := types.LoadNodeCredentials(ctx, ns, nodeenrollment.CurrentId); err == nil {
				t.Errorf("node%s stored credentials from %s", sfx, name)
			}
		}
		refuse("a response meant for another node", resp)
		rec, err := types.LoadNodeInformation(ctx, st, nKeyId, sopt...)
		if err != nil {
			t.Fatal(err)
		}
		forge := func(nonce []byte) *types.FetchNodeCredentialsResponse {
			enc, err := nodeenrollment.EncryptMessage(ctx, &types.NodeCredentials{RegistrationNonce: nonce, CertificateBundles: rec.CertificateBundles}, rec)
			if err != nil {
				t.Fatal(err)
			}
			r := proto.Clone(good).(*types.FetchNodeCredentialsResponse)
			r.EncryptedNodeCredentials = enc
			return r
		}
		wrong := make([]byte, nodeenrollment.NonceSize)
		rand.Read(wrong)
		refuse("a response echoing another nonce", forge(wrong))
		refuse("a response echoing no nonce", forge(nil))
		refuse("a response echoing a truncated nonce", forge(nc.RegistrationNonce[:16]))
		garbled := proto.Clone(good).(*types.FetchNodeCredentialsResponse)
		garbled.EncryptedNodeCredentials = append([]byte{}, good.EncryptedNodeCredentials...)
		garbled.EncryptedNodeCredentials[len(garbled.EncryptedNodeCredentials)/2] ^= 1
		refuse("a garbled response", garbled)
	}
}
