package nodeenrollment_test

// Property-level replay test for C11: message encryption round trip, binding to
// key and key id, previous-key fallback, no crash and no wrong plaintext for
// mutated / truncated / arbitrary ciphertexts.

import (
	"context"
	"crypto/rand"
	"testing"

	wrapping "github.com/hashicorp/go-kms-wrapping/v2"
	"github.com/hashicorp/nodeenrollment"
	"github.com/hashicorp/nodeenrollment/types"
	"golang.org/x/crypto/curve25519"
	"google.golang.org/protobuf/proto"
	"google.golang.org/protobuf/types/known/emptypb"
	"google.golang.org/protobuf/types/known/structpb"
	"google.golang.org/protobuf/types/known/wrapperspb"
)

type pair struct {
	node   *types.NodeCredentials
	server *types.NodeInformation
}

func newPair(t *testing.T, certPub []byte) pair {
	np, sp := make([]byte, 32), make([]byte, 32)
	rand.Read(np)
	rand.Read(sp)
	npub, _ := curve25519.X25519(np, curve25519.Basepoint)
	spub, _ := curve25519.X25519(sp, curve25519.Basepoint)
	return pair{
		node:   &types.NodeCredentials{CertificatePublicKeyPkix: certPub, EncryptionPrivateKeyBytes: np, EncryptionPrivateKeyType: types.KEYTYPE_X25519, ServerEncryptionPublicKeyBytes: spub, ServerEncryptionPublicKeyType: types.KEYTYPE_X25519},
		server: &types.NodeInformation{CertificatePublicKeyPkix: certPub, ServerEncryptionPrivateKeyBytes: sp, ServerEncryptionPrivateKeyType: types.KEYTYPE_X25519, EncryptionPublicKeyBytes: npub, EncryptionPublicKeyType: types.KEYTYPE_X25519},
	}
}

func TestVerifReplayC11(t *testing.T) {
	ctx := context.Background()
	a := newPair(t, []byte("cert-key-a"))
	b := newPair(t, []byte("cert-key-b"))
	// both sides derive the same secret and id
	nid, nk, err := a.node.X25519EncryptionKey()
	if err != nil {
		t.Fatal(err)
	}
	sid, sk, err := a.server.X25519EncryptionKey()
	if err != nil || nid != sid || string(nk) != string(sk) {
		t.Fatalf("node and server derive different secrets / ids: %v", err)
	}
	st, _ := structpb.NewStruct(map[string]interface{}{"x": "y"})
	msgs := []proto.Message{st, &emptypb.Empty{}, wrapperspb.Bool(false), &wrapping.BlobInfo{}, &types.NodeCredentials{RegistrationNonce: []byte("nonce")}, wrapperspb.String("")}
	for mi, msg := range msgs {
		ct, err := nodeenrollment.EncryptMessage(ctx, msg, a.server)
		if err != nil {
			t.Fatalf("msg %d: encrypt: %v", mi, err)
		}
		out := proto.Clone(msg)
		proto.Reset(out)
		if err := nodeenrollment.DecryptMessage(ctx, ct, a.node, out); err != nil {
			t.Fatalf("msg %d: the matching receiver cannot decrypt: %v", mi, err)
		}
		if !proto.Equal(msg, out) {
			t.Fatalf("msg %d: decrypted message differs", mi)
		}
		// receiver that rotated: old pair recorded as previous
		rot := newPair(t, []byte("cert-key-new"))
		if err := rot.node.SetPreviousEncryptionKey(a.node); err != nil {
			t.Fatal(err)
		}
		proto.Reset(out)
		if err := nodeenrollment.DecryptMessage(ctx, ct, rot.node, out); err != nil || !proto.Equal(msg, out) {
			t.Fatalf("msg %d: receiver with the sender's pair as previous key cannot decrypt: %v", mi, err)
		}
		// different secret, different key id, and both failing with a previous key present
		wrongID := newPair(t, []byte("cert-key-other"))
		wrongID.node.EncryptionPrivateKeyBytes, wrongID.node.ServerEncryptionPublicKeyBytes = a.node.EncryptionPrivateKeyBytes, a.node.ServerEncryptionPublicKeyBytes
		both := newPair(t, []byte("cert-key-z"))
		both.node.SetPreviousEncryptionKey(b.node)
		for name, ks := range map[string]nodeenrollment.X25519KeyProducer{"other-secret": b.node, "other-keyid": wrongID.node, "both-fail-with-previous": both.node} {
			proto.Reset(out)
			if err := nodeenrollment.DecryptMessage(ctx, ct, ks, out); err == nil {
				t.Fatalf("msg %d: decryption with %s succeeded", mi, name)
			}
		}
		// mutations / truncations: error or the original, never a crash or another plaintext
		try := func(c []byte, what string) {
			defer func() {
				if r := recover(); r != nil {
					t.Fatalf("msg %d: DecryptMessage panicked on %s: %v", mi, what, r)
				}
			}()
			o := proto.Clone(msg)
			proto.Reset(o)
			if err := nodeenrollment.DecryptMessage(ctx, c, a.node, o); err == nil && !proto.Equal(o, msg) {
				t.Fatalf("msg %d: %s decrypted to a different plaintext", mi, what)
			}
		}
		for i := 0; i < len(ct); i++ {
			c := append([]byte{}, ct...)
			c[i] ^= 0x01
			try(c, "bit flip")
			try(ct[:i], "truncation")
		}
		for n := 0; n < 40; n++ {
			blob, _ := proto.Marshal(&wrapping.BlobInfo{Ciphertext: make([]byte, n)})
			try(blob, "short inner ciphertext")
			junk := make([]byte, n)
			rand.Read(junk)
			try(junk, "random bytes")
		}
	}
}
