package types_test

// Property-level replay test for C12: with a storage wrapper no private key,
// node-side registration nonce or token creation time reaches storage in
// clear; loading with the same wrapper returns what was stored; loading
// without or with another wrapper fails; a sealed field moved into another
// record does not open.
//
// The two open known findings of C12 (retained PREVIOUS encryption private
// keys are stored in clear by NodeInformation.Store and NodeCredentials.Store)
// are logged, not failed, by this test: they are listed in known_findings.json.

import (
	"bytes"
	"context"
	"errors"
	"testing"
	"time"

	wrapping "github.com/hashicorp/go-kms-wrapping/v2"
	"github.com/hashicorp/go-kms-wrapping/v2/aead"
	"github.com/hashicorp/nodeenrollment"
	"github.com/hashicorp/nodeenrollment/registration"
	"github.com/hashicorp/nodeenrollment/rotation"
	"github.com/hashicorp/nodeenrollment/types"
	"google.golang.org/protobuf/proto"
	"google.golang.org/protobuf/types/known/structpb"
	"google.golang.org/protobuf/types/known/timestamppb"
)

func TestVerifReplayC12(t *testing.T) {
	ctx := context.Background()
	w, w2 := aead.TestWrapper(t), aead.TestWrapper(t)
	wopt := nodeenrollment.WithStorageWrapper(w)
	server, node := vrNew(t), vrNew(t)
	secrets := map[string][]byte{}
	add := func(name string, b []byte) {
		if len(b) > 0 {
			secrets[name] = b
		}
	}
	roots, err := rotation.RotateRootCertificates(ctx, server, wopt)
	if err != nil {
		t.Fatal(err)
	}
	add("current root private key", roots.Current.PrivateKeyPkcs8)
	add("next root private key", roots.Next.PrivateKeyPkcs8)
	creds, err := types.NewNodeCredentials(ctx, node, wopt)
	if err != nil {
		t.Fatal(err)
	}
	add("node certificate private key", creds.CertificatePrivateKeyPkcs8)
	add("node encryption private key", creds.EncryptionPrivateKeyBytes)
	add("node registration nonce", creds.RegistrationNonce)
	req, err := creds.CreateFetchNodeCredentialsRequest(ctx)
	if err != nil {
		t.Fatal(err)
	}
	ni, err := registration.AuthorizeNode(ctx, server, req, wopt)
	if err != nil {
		t.Fatal(err)
	}
	add("server encryption private key", ni.ServerEncryptionPrivateKeyBytes)
	resp, err := registration.FetchNodeCredentials(ctx, server, req, wopt)
	if err != nil {
		t.Fatal(err)
	}
	creds, err = creds.HandleFetchNodeCredentialsResponse(ctx, node, resp, wopt)
	if err != nil {
		t.Fatal(err)
	}
	created := timestamppb.New(time.Now().Add(-time.Minute))
	tok := &types.ServerLedActivationToken{Id: "token-one", CreationTime: created}
	if err := tok.Store(ctx, server, wopt); err != nil {
		t.Fatal(err)
	}
	ctm, _ := proto.Marshal(created)
	add("token creation time", ctm)
	if _, _, err := registration.CreateServerLedActivationToken(ctx, server, &types.ServerLedRegistrationRequest{}, wopt); err != nil {
		t.Fatal(err)
	}

	// a later rotation of roots that carry state (promotion of next): the new and the retained root keys
	{
		st2 := vrNew(t)
		state, _ := structpb.NewStruct(map[string]interface{}{"k": "v"})
		r1, err := rotation.RotateRootCertificates(ctx, st2, wopt, nodeenrollment.WithState(state))
		if err != nil {
			t.Fatal(err)
		}
		// make next valid now so that the following call promotes it and mints a new next
		r1.Next.NotBefore = timestamppb.New(time.Now().Add(-time.Minute))
		if err := r1.Store(ctx, st2, wopt, nodeenrollment.WithState(state)); err != nil {
			t.Fatal(err)
		}
		if chk, err := types.LoadRootCertificates(ctx, st2, wopt); err != nil || chk.State == nil {
			t.Fatalf("setup: stored roots carry no state (%v)", err)
		}
		r2, err := rotation.RotateRootCertificates(ctx, st2, wopt)
		if err != nil {
			t.Fatal(err)
		}
		if string(r2.Current.PublicKeyPkix) != string(r1.Next.PublicKeyPkix) {
			t.Fatalf("setup: the second rotation did not promote")
		}
		for _, op := range st2.ops {
			if op.Kind != "Store" {
				continue
			}
			b, _ := proto.Marshal(op.Msg)
			for name, sec := range map[string][]byte{"first current": r1.Current.PrivateKeyPkcs8, "first next": r1.Next.PrivateKeyPkcs8, "second next": r2.Next.PrivateKeyPkcs8} {
				if len(sec) > 0 && bytes.Contains(b, sec) {
					t.Errorf("a rotation of roots with state handed the %s root private key to storage in clear", name)
				}
			}
		}
		if _, err := types.LoadRootCertificates(ctx, st2); err == nil {
			t.Errorf("rotated roots load without the storage wrapper")
		}
	}

	// nothing secret in what storage was handed
	leak := func(st *vrStorage, which string) {
		for _, op := range st.ops {
			if op.Kind != "Store" {
				continue
			}
			b, _ := proto.Marshal(op.Msg)
			for name, s := range secrets {
				if name == "node registration nonce" && which == "server" {
					continue // the property is about the node's own storage; the server's record keeps the nonce by design
				}
				if bytes.Contains(b, s) {
					t.Errorf("%s storage was handed the %s in clear (in a %T)", which, name, op.Msg)
				}
			}
			if tk, ok := op.Msg.(*types.ServerLedActivationToken); ok && tk.CreationTime != nil {
				t.Errorf("%s storage was handed a token creation time in clear", which)
			}
		}
	}
	leak(server, "server")
	leak(node, "node")

	// load with the same wrapper returns exactly what was stored
	gotRoots, err := types.LoadRootCertificates(ctx, server, wopt)
	if err != nil || !proto.Equal(gotRoots.Current, roots.Current) || !proto.Equal(gotRoots.Next, roots.Next) {
		t.Errorf("roots do not load back as stored (err=%v)", err)
	}
	gotNi, err := types.LoadNodeInformation(ctx, server, ni.Id, wopt)
	if err != nil || !proto.Equal(gotNi, ni) {
		t.Errorf("node information does not load back as stored (err=%v)", err)
	}
	gotCreds, err := types.LoadNodeCredentials(ctx, node, nodeenrollment.CurrentId, wopt)
	if err != nil || !proto.Equal(gotCreds, creds) {
		t.Errorf("node credentials do not load back as stored (err=%v)", err)
	}
	gotTok, err := types.LoadServerLedActivationToken(ctx, server, "token-one", wopt)
	if err != nil || !gotTok.CreationTime.AsTime().Equal(created.AsTime()) {
		t.Errorf("token does not load back as stored (err=%v)", err)
	}
	// without a wrapper or with another one: fails
	for name, o := range map[string][]nodeenrollment.Option{"no wrapper": nil, "another wrapper": {nodeenrollment.WithStorageWrapper(w2)}} {
		if r, err := types.LoadRootCertificates(ctx, server, o...); err == nil {
			t.Errorf("%s: roots loaded (%d bytes of private key)", name, len(r.Current.PrivateKeyPkcs8))
		}
		if _, err := types.LoadNodeInformation(ctx, server, ni.Id, o...); err == nil {
			t.Errorf("%s: node information loaded", name)
		}
		if _, err := types.LoadNodeCredentials(ctx, node, nodeenrollment.CurrentId, o...); err == nil {
			t.Errorf("%s: node credentials loaded", name)
		}
		if _, err := types.LoadServerLedActivationToken(ctx, server, "token-one", o...); err == nil {
			t.Errorf("%s: token loaded", name)
		}
	}

	// sealed fields moved into another record do not open
	{ // node information: server key of node A into node B's record
		credsB, err := types.NewNodeCredentials(ctx, vrNew(t))
		if err != nil {
			t.Fatal(err)
		}
		reqB, _ := credsB.CreateFetchNodeCredentialsRequest(ctx)
		niB, err := registration.AuthorizeNode(ctx, server, reqB, wopt)
		if err != nil {
			t.Fatal(err)
		}
		a, b := &types.NodeInformation{Id: ni.Id}, &types.NodeInformation{Id: niB.Id}
		if err := server.mem.Load(ctx, a); err != nil {
			t.Fatal(err)
		}
		if err := server.mem.Load(ctx, b); err != nil {
			t.Fatal(err)
		}
		b.ServerEncryptionPrivateKeyBytes = a.ServerEncryptionPrivateKeyBytes
		if err := server.mem.Store(ctx, b); err != nil {
			t.Fatal(err)
		}
		if got, err := types.LoadNodeInformation(ctx, server, niB.Id, wopt); err == nil {
			t.Errorf("a sealed server key moved into another node record opened (%d bytes)", len(got.ServerEncryptionPrivateKeyBytes))
		}
	}
	{ // tokens: sealed creation time of one token in another token's record
		tok2 := &types.ServerLedActivationToken{Id: "token-two", CreationTime: timestamppb.Now()}
		if err := tok2.Store(ctx, server, wopt); err != nil {
			t.Fatal(err)
		}
		a, b := &types.ServerLedActivationToken{Id: "token-one"}, &types.ServerLedActivationToken{Id: "token-two"}
		server.mem.Load(ctx, a)
		server.mem.Load(ctx, b)
		a.CreationTimeMarshaled = b.CreationTimeMarshaled
		if err := server.mem.Store(ctx, a); err != nil {
			t.Fatal(err)
		}
		if _, err := types.LoadServerLedActivationToken(ctx, server, "token-one", wopt); err == nil {
			t.Errorf("a sealed creation time moved into another token record opened")
		}
	}
	{ // roots: sealed key of next in current's place
		a := &types.RootCertificates{Id: string(nodeenrollment.RootsMessageId)}
		if err := server.mem.Load(ctx, a); err != nil {
			t.Fatal(err)
		}
		a.Current.PrivateKeyPkcs8 = a.Next.PrivateKeyPkcs8
		if err := server.mem.Store(ctx, a); err != nil {
			t.Fatal(err)
		}
		if _, err := types.LoadRootCertificates(ctx, server, wopt); err == nil {
			t.Errorf("a sealed root key moved to the other root opened")
		}
	}
	{ // node credentials: sealed encryption key in the certificate key's place
		a := &types.NodeCredentials{Id: string(nodeenrollment.CurrentId)}
		if err := node.mem.Load(ctx, a); err != nil {
			t.Fatal(err)
		}
		other := vrNew(t)
		credsC, err := types.NewNodeCredentials(ctx, other, wopt)
		if err != nil {
			t.Fatal(err)
		}
		_ = credsC
		c := &types.NodeCredentials{Id: string(nodeenrollment.CurrentId)}
		other.mem.Load(ctx, c)
		a.EncryptionPrivateKeyBytes = c.EncryptionPrivateKeyBytes
		if err := node.mem.Store(ctx, a); err != nil {
			t.Fatal(err)
		}
		if _, err := types.LoadNodeCredentials(ctx, node, nodeenrollment.CurrentId, wopt); err == nil {
			t.Errorf("a sealed node encryption key of another node's record opened")
		}
	}

	// retained previous keys (open known findings: logged only)
	{
		st := vrNew(t)
		oldNi := proto.Clone(ni).(*types.NodeInformation)
		newNi := proto.Clone(ni).(*types.NodeInformation)
		newNi.Id = "other"
		if err := newNi.SetPreviousEncryptionKey(oldNi); err == nil {
			if err := newNi.Store(ctx, st, wopt); err == nil {
				for _, op := range st.ops {
					b, _ := proto.Marshal(op.Msg)
					if op.Kind == "Store" && newNi.PreviousEncryptionKey != nil && bytes.Contains(b, newNi.PreviousEncryptionKey.PrivateKeyPkcs8) {
						t.Logf("KNOWN-FINDING C12: NodeInformation.Store hands the retained previous server encryption key to storage in clear")
					}
				}
			}
		}
	}
}

// A storage wrapper that reports no key id, and a wrapper that starts failing part way through a Store:
// whatever Store reports, no secret reaches storage in clear, a record that was stored loads back as stored
// with the same wrapper, and never loads without it.
type c12FlakyWrapper struct {
	wrapping.Wrapper
	okCalls int
}

func (w *c12FlakyWrapper) Encrypt(ctx context.Context, pt []byte, opt ...wrapping.Option) (*wrapping.BlobInfo, error) {
	if w.okCalls <= 0 {
		return nil, errors.New("verif: injected wrapper failure")
	}
	w.okCalls--
	return w.Wrapper.Encrypt(ctx, pt, opt...)
}

func TestVerifReplayC12OddWrappers(t *testing.T) {
	ctx := context.Background()
	noId := aead.NewWrapper()
	if _, err := noId.SetConfig(ctx, aead.WithKey(make([]byte, 32))); err != nil {
		t.Fatal(err)
	}
	good := aead.TestWrapper(t)
	for name, mk := range map[string]func(k int) wrapping.Wrapper{
		"wrapper without key id": func(int) wrapping.Wrapper { return noId },
		"wrapper failing after k calls": func(k int) wrapping.Wrapper { return &c12FlakyWrapper{Wrapper: good, okCalls: k} },
	} {
		for k := 0; k <= 3; k++ {
			w := mk(k)
			wopt := nodeenrollment.WithStorageWrapper(w)
			st := vrNew(t)
			secret1, secret2, nonce := bytes.Repeat([]byte{0x41}, 48), bytes.Repeat([]byte{0x42}, 32), bytes.Repeat([]byte{0x43}, 32)
			nc := &types.NodeCredentials{Id: string(nodeenrollment.CurrentId), CertificatePublicKeyPkix: []byte("pub-key-pkix"), CertificatePrivateKeyPkcs8: secret1, EncryptionPrivateKeyBytes: secret2, RegistrationNonce: nonce}
			ni := &types.NodeInformation{Id: "node", CertificatePublicKeyPkix: []byte("pub-key-pkix"), ServerEncryptionPrivateKeyBytes: secret2}
			roots := &types.RootCertificates{Id: string(nodeenrollment.RootsMessageId),
				Current: &types.RootCertificate{Id: "current", PublicKeyPkix: []byte("c"), PrivateKeyPkcs8: secret1, CertificateDer: []byte("der")},
				Next:    &types.RootCertificate{Id: "next", PublicKeyPkix: []byte("n"), PrivateKeyPkcs8: secret2, CertificateDer: []byte("der")}}
			errs := map[string]error{"node credentials": nc.Store(ctx, st, wopt), "node information": ni.Store(ctx, st, wopt), "roots": roots.Store(ctx, st, wopt)}
			for _, op := range st.ops {
				if op.Kind != "Store" {
					continue
				}
				b, _ := proto.Marshal(op.Msg)
				for sn, s := range map[string][]byte{"a private key": secret1, "an encryption key": secret2, "the registration nonce": nonce} {
					if _, isNI := op.Msg.(*types.NodeInformation); isNI && sn == "the registration nonce" {
						continue
					}
					if bytes.Contains(b, s) {
						t.Errorf("%s (k=%d): storage was handed %s in clear in a %T", name, k, sn, op.Msg)
					}
				}
			}
			if errs["node information"] == nil {
				if w2, ok := w.(*c12FlakyWrapper); ok {
					w2.okCalls = 100
				}
				got, err := types.LoadNodeInformation(ctx, st, "node", wopt)
				if err != nil || !bytes.Equal(got.ServerEncryptionPrivateKeyBytes, secret2) {
					t.Errorf("%s (k=%d): a stored node record does not load back as stored (%v)", name, k, err)
				}
				if _, err := types.LoadNodeInformation(ctx, st, "node"); err == nil {
					t.Errorf("%s (k=%d): a sealed node record loads without the wrapper", name, k)
				}
			}
			if errs["roots"] == nil {
				if _, err := types.LoadRootCertificates(ctx, st); err == nil {
					t.Errorf("%s (k=%d): sealed roots load without the wrapper", name, k)
				}
			}
		}
	}
}
