package tls_test

// Property-level replay test for C07 (node side): the client configurations
// accept a peer only if its certificate chains to a root held in the stored
// credentials and embeds the nonce generated for that connection; foreign
// roots, another connection's nonce, no nonce and no certificate are rejected
// whatever protocol was negotiated; the two configurations carry their own
// certificate-preference entries.

import (
	"context"
	cryptotls "crypto/tls"
	"crypto/x509"
	"encoding/base64"
	"strings"
	"testing"
	"time"

	"github.com/hashicorp/nodeenrollment"
	"github.com/hashicorp/nodeenrollment/registration"
	"github.com/hashicorp/nodeenrollment/rotation"
	nodetls "github.com/hashicorp/nodeenrollment/tls"
	"github.com/hashicorp/nodeenrollment/types"
	"google.golang.org/protobuf/proto"
)

func c07Request(t *testing.T, cfg *cryptotls.Config) *types.GenerateServerCertificatesRequest {
	t.Helper()
	var chunks []string
	for _, p := range cfg.NextProtos {
		if strings.HasPrefix(p, nodeenrollment.AuthenticateNodeNextProtoV1Prefix) {
			chunks = append(chunks, p)
		}
	}
	s, err := nodetls.CombineFromNextProtos(nodeenrollment.AuthenticateNodeNextProtoV1Prefix, chunks)
	if err != nil {
		t.Fatal(err)
	}
	b, err := base64.RawStdEncoding.DecodeString(s)
	if err != nil {
		t.Fatal(err)
	}
	req := new(types.GenerateServerCertificatesRequest)
	if err := proto.Unmarshal(b, req); err != nil {
		t.Fatal(err)
	}
	return req
}

func c07Chain(t *testing.T, resp *types.GenerateServerCertificatesResponse, i int) []*x509.Certificate {
	t.Helper()
	leaf, err := x509.ParseCertificate(resp.CertificateBundles[i].CertificateDer)
	if err != nil {
		t.Fatal(err)
	}
	ca, err := x509.ParseCertificate(resp.CertificateBundles[i].CaCertificateDer)
	if err != nil {
		t.Fatal(err)
	}
	return []*x509.Certificate{leaf, ca}
}

// c07Server: a server whose two roots are both valid now (so that the node gets two usable chains), with one enrolled node.
func c07Server(t *testing.T) (*vrStorage, *types.NodeCredentials) {
	t.Helper()
	ctx := context.Background()
	st := vrNew(t)
	if _, err := rotation.RotateRootCertificates(ctx, st, nodeenrollment.WithCertificateLifetime(2*time.Hour), nodeenrollment.WithNotBeforeClockSkew(-2*time.Hour)); err != nil {
		t.Fatal(err)
	}
	creds, req, _, ns := vrFreshNode(t)
	if _, err := registration.AuthorizeNode(ctx, st, req); err != nil {
		t.Fatal(err)
	}
	resp, err := registration.FetchNodeCredentials(ctx, st, req)
	if err != nil {
		t.Fatal(err)
	}
	creds, err = creds.HandleFetchNodeCredentialsResponse(ctx, ns, resp)
	if err != nil {
		t.Fatal(err)
	}
	return st, creds
}

func TestVerifReplayC07(t *testing.T) {
	ctx := context.Background()
	st, creds := c07Server(t)
	foreign, _ := c07Server(t) // another server with its own roots
	cfgs, err := nodetls.ClientConfigs(ctx, creds)
	if err != nil {
		t.Fatal(err)
	}
	if len(cfgs) != 2 {
		t.Fatalf("expected two client configurations, got %d", len(cfgs))
	}
	pref := func(c *cryptotls.Config) string {
		var out []string
		for _, p := range c.NextProtos {
			if strings.HasPrefix(p, nodeenrollment.CertificatePreferenceV1Prefix) {
				out = append(out, p)
			}
		}
		if len(out) != 1 {
			t.Fatalf("a configuration carries %d certificate-preference entries", len(out))
		}
		return out[0]
	}
	if pref(cfgs[0]) == pref(cfgs[1]) {
		t.Errorf("both client configurations ask for the same certificate chain (%s)", pref(cfgs[0]))
	}
	other, err := nodetls.ClientConfigs(ctx, creds) // another connection attempt: another nonce
	if err != nil {
		t.Fatal(err)
	}
	for ci, cfg := range cfgs {
		req := c07Request(t, cfg)
		if len(req.Nonce) != nodeenrollment.NonceSize {
			t.Fatalf("configuration %d: request nonce of %d bytes", ci, len(req.Nonce))
		}
		if string(req.Nonce) == string(c07Request(t, other[0]).Nonce) {
			t.Errorf("two calls produced the same nonce")
		}
		good, err := nodetls.GenerateServerCertificates(ctx, st, req)
		if err != nil {
			t.Fatal(err)
		}
		stale, err := nodetls.GenerateServerCertificates(ctx, st, c07Request(t, other[0]))
		if err != nil {
			t.Fatal(err)
		}
		noNonce := proto.Clone(req).(*types.GenerateServerCertificatesRequest)
		noNonce.Nonce, noNonce.NonceSignature, noNonce.SkipVerification = nil, nil, true
		bare, err := nodetls.GenerateServerCertificates(ctx, st, noNonce)
		if err != nil {
			t.Fatal(err)
		}
		skipped := proto.Clone(req).(*types.GenerateServerCertificatesRequest)
		skipped.SkipVerification = true
		alien, err := nodetls.GenerateServerCertificates(ctx, foreign, skipped)
		if err != nil {
			t.Fatal(err)
		}
		for _, negotiated := range []string{cfg.NextProtos[0], "", "h2", nodeenrollment.FetchNodeCredsNextProtoV1Prefix + "00-x", "v1-nodee-unknown"} {
			verify := func(chain []*x509.Certificate) error {
				return cfg.VerifyConnection(cryptotls.ConnectionState{PeerCertificates: chain, NegotiatedProtocol: negotiated, HandshakeComplete: true})
			}
			for i := 0; i < 2; i++ {
				if negotiated == cfg.NextProtos[0] {
					if err := verify(c07Chain(t, good, i)); err != nil {
						t.Errorf("configuration %d: the node's own server (chain %d) is rejected: %v", ci, i, err)
					}
				}
				if verify(c07Chain(t, stale, i)) == nil {
					t.Errorf("configuration %d, negotiated %q: a certificate minted for another nonce is accepted", ci, negotiated)
				}
				if verify(c07Chain(t, bare, i)) == nil {
					t.Errorf("configuration %d, negotiated %q: a certificate with no nonce is accepted", ci, negotiated)
				}
				if verify(c07Chain(t, alien, i)) == nil {
					t.Errorf("configuration %d, negotiated %q: a certificate from a foreign root is accepted", ci, negotiated)
				}
			}
			if verify(nil) == nil {
				t.Errorf("configuration %d, negotiated %q: a peer without a certificate is accepted", ci, negotiated)
			}
		}
	}
}
