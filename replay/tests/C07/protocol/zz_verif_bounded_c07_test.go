package protocol_test

// Bounded stand-in for the "conversely" half of C07 (protocol.Dial is network
// I/O around crypto/tls and is outside the deductive engine's reach; only its
// thin contract - fails closed, options and stored credentials reach every
// load, store and TLS attempt, one fresh transport connection per attempt -
// is proved). This test runs real dials over loopback, for a stated, finite
// set of configurations and histories:
//
//   addresses   : tcp 127.0.0.1, unix socket
//   storage     : with and without a storage wrapper on the node side
//   options     : with and without extra ALPN protocols
//   history     : new key -> dial x3 (not authorized) -> authorize ->
//                 dial x4 -> root rotation that drops one of the node's two
//                 chains -> dial x12
//
// Bound: 2 x 2 x 2 configurations, 19 dials each. It is labelled bounded in
// the evidence and never counted as proved.

import (
	"bytes"
	"context"
	"errors"
	"net"
	"path/filepath"
	"testing"
	"time"

	"github.com/hashicorp/go-kms-wrapping/v2/aead"
	"github.com/hashicorp/nodeenrollment"
	"github.com/hashicorp/nodeenrollment/protocol"
	"github.com/hashicorp/nodeenrollment/registration"
	"github.com/hashicorp/nodeenrollment/rotation"
	"github.com/hashicorp/nodeenrollment/storage/inmem"
	"github.com/hashicorp/nodeenrollment/types"
)

func vbC07Serve(t *testing.T, ln *protocol.InterceptingListener) {
	t.Helper()
	done := make(chan struct{})
	var conns []net.Conn
	go func() {
		defer close(done)
		for {
			conn, err := ln.Accept()
			if err != nil {
				if errors.Is(err, net.ErrClosed) {
					return
				}
				if te, ok := err.(interface{ Temporary() bool }); ok && te.Temporary() {
					continue
				}
				return
			}
			conns = append(conns, conn)
		}
	}()
	t.Cleanup(func() {
		_ = ln.Close()
		<-done
		for _, c := range conns {
			_ = c.Close()
		}
	})
}

func TestVerifBoundedC07Dial(t *testing.T) {
	for _, network := range []string{"tcp", "unix"} {
		for _, wrapped := range []bool{false, true} {
			for _, extra := range []bool{false, true} {
				name := network
				if wrapped {
					name += "-wrapper"
				}
				if extra {
					name += "-alpn"
				}
				t.Run(name, func(t *testing.T) { vbC07History(t, network, wrapped, extra) })
			}
		}
	}
}

func vbC07History(t *testing.T, network string, wrapped, extra bool) {
	ctx, cancel := context.WithTimeout(context.Background(), 40*time.Second)
	defer cancel()
	must := func(err error, what string) {
		t.Helper()
		if err != nil {
			t.Fatalf("%s: %v", what, err)
		}
	}

	serverStorage, err := inmem.New(ctx)
	must(err, "server storage")
	nodeStorage, err := inmem.New(ctx)
	must(err, "node storage")

	// a short lifetime together with the default NotBefore skew makes both roots valid at once
	rootOpts := []nodeenrollment.Option{nodeenrollment.WithCertificateLifetime(2 * time.Minute)}
	origRoots, err := rotation.RotateRootCertificates(ctx, serverStorage, rootOpts...)
	must(err, "roots")
	now := time.Now()
	if !origRoots.Next.NotBefore.AsTime().Before(now) || !origRoots.Current.NotAfter.AsTime().After(now) {
		t.Skip("set-up: the two roots are not both valid")
	}

	var nodeOpts []nodeenrollment.Option
	if wrapped {
		nodeOpts = append(nodeOpts, nodeenrollment.WithStorageWrapper(aead.TestWrapper(t)))
	}
	dialOpts := append([]nodeenrollment.Option{}, nodeOpts...)
	if extra {
		dialOpts = append(dialOpts, nodeenrollment.WithExtraAlpnProtos([]string{"h2", "verif-c07"}))
	}

	var baseLn net.Listener
	switch network {
	case "unix":
		baseLn, err = net.Listen("unix", filepath.Join(t.TempDir(), "s"))
	default:
		baseLn, err = net.Listen("tcp4", "127.0.0.1:0")
	}
	must(err, "listen")
	ln, err := protocol.NewInterceptingListener(&protocol.InterceptingListenerConfiguration{
		Context:      ctx,
		Storage:      serverStorage,
		BaseListener: baseLn,
	})
	must(err, "intercepting listener")
	vbC07Serve(t, ln)
	addr := ln.Addr().String()

	// --- an unregistered node: its key is made and stored, nothing else
	creds, err := types.NewNodeCredentials(ctx, nodeStorage, nodeOpts...)
	must(err, "new credentials")
	pub := append([]byte{}, creds.CertificatePublicKeyPkix...)
	// every dial gets its own deadline: a dial that wedges (e.g. on a reused transport connection) is a failure
	dial := func() (net.Conn, error) {
		dctx, dcancel := context.WithTimeout(ctx, 5*time.Second)
		defer dcancel()
		return protocol.Dial(dctx, nodeStorage, addr, dialOpts...)
	}
	stored := func() *types.NodeCredentials {
		t.Helper()
		c, err := types.LoadNodeCredentials(ctx, nodeStorage, nodeenrollment.CurrentId, nodeOpts...)
		must(err, "load node credentials")
		return c
	}
	for i := 0; i < 3; i++ {
		conn, err := dial()
		if conn != nil {
			_ = conn.Close()
			t.Fatalf("C07: dial %d of an unregistered node returned a connection", i)
		}
		if !errors.Is(err, nodeenrollment.ErrNotAuthorized) {
			t.Fatalf("C07: dial %d of an unregistered node reports %v, want the not-authorized error", i, err)
		}
		c := stored()
		if len(c.CertificateBundles) != 0 {
			t.Fatalf("C07: unauthorized dial %d stored %d certificate chains", i, len(c.CertificateBundles))
		}
		if !bytes.Equal(c.CertificatePublicKeyPkix, pub) {
			t.Fatalf("C07: unauthorized dial %d changed the stored key", i)
		}
	}

	// --- the operator authorizes the node (same stored key)
	req, err := stored().CreateFetchNodeCredentialsRequest(ctx)
	must(err, "fetch request")
	_, err = registration.AuthorizeNode(ctx, serverStorage, req)
	must(err, "authorize")
	for i := 0; i < 4; i++ {
		conn, err := dial()
		if err != nil || conn == nil {
			t.Fatalf("C07: dial %d of the authorized node failed: %v", i, err)
		}
		_ = conn.Close()
		c := stored()
		if !bytes.Equal(c.CertificatePublicKeyPkix, pub) {
			t.Fatalf("C07: the authorized node connected with another key than the stored one")
		}
		if len(c.CertificateBundles) != 2 {
			t.Fatalf("C07: authorized node holds %d certificate chains, want 2", len(c.CertificateBundles))
		}
	}

	// --- root rotation: old next becomes current, the old current is forgotten by the server
	newRoots, err := rotation.RotateRootCertificates(ctx, serverStorage, rootOpts...)
	must(err, "rotate")
	if !bytes.Equal(newRoots.Current.PublicKeyPkix, origRoots.Next.PublicKeyPkix) ||
		bytes.Equal(newRoots.Next.PublicKeyPkix, origRoots.Next.PublicKeyPkix) {
		t.Skip("set-up: rotation did not promote the next root")
	}
	for i := 0; i < 12; i++ {
		conn, err := dial()
		if err != nil || conn == nil {
			t.Fatalf("C07: dial %d after root rotation failed although one chain is still recognized: %v", i, err)
		}
		_ = conn.Close()
	}
}
