package rotation_test

// Property-level replay test for C10: a credential-rotation request is
// honored only if its payload decrypts under the key shared with a stored
// record of the identified node (current or recorded previous key); the new
// key is registered with that record's state; the reply opens only with that
// record's current shared key and the credentials inside only with the new
// key; every other request is refused, registers nothing and leaves the old
// record unchanged.

import (
	"context"
	"testing"

	"github.com/hashicorp/nodeenrollment"
	"github.com/hashicorp/nodeenrollment/registration"
	"github.com/hashicorp/nodeenrollment/rotation"
	storeonce "github.com/hashicorp/nodeenrollment/storage/testing"
	"github.com/hashicorp/nodeenrollment/types"
	"google.golang.org/protobuf/proto"
	"google.golang.org/protobuf/types/known/structpb"
)

func c10Enroll(t *testing.T, st *vrStorage, state *structpb.Struct) (*types.NodeCredentials, string) {
	t.Helper()
	ctx := context.Background()
	creds, req, keyId, ns := vrFreshNode(t)
	var opt []nodeenrollment.Option
	if state != nil {
		opt = append(opt, nodeenrollment.WithState(state))
	}
	if _, err := registration.AuthorizeNode(ctx, st, req, opt...); err != nil {
		t.Fatal(err)
	}
	resp, err := registration.FetchNodeCredentials(ctx, st, req)
	if err != nil {
		t.Fatal(err)
	}
	creds, err = creds.HandleFetchNodeCredentialsResponse(ctx, ns, resp)
	if err != nil {
		t.Fatal(err)
	}
	return creds, keyId
}

func c10Request(t *testing.T, encryptWith *types.NodeCredentials, claimKey []byte, mutate func(*types.FetchNodeCredentialsInfo)) (*types.NodeCredentials, string, *types.RotateNodeCredentialsRequest) {
	t.Helper()
	ctx := context.Background()
	newCreds, fetchReq, newKeyId, _ := vrFreshNode(t)
	if mutate != nil {
		fetchReq = vrResign(t, newCreds, fetchReq, mutate)
	}
	enc, err := nodeenrollment.EncryptMessage(ctx, fetchReq, encryptWith)
	if err != nil {
		t.Fatal(err)
	}
	return newCreds, newKeyId, &types.RotateNodeCredentialsRequest{CertificatePublicKeyPkix: claimKey, EncryptedFetchNodeCredentialsRequest: enc}
}

func TestVerifReplayC10(t *testing.T) {
	ctx := context.Background()
	st, bystander, bystanderId := vrServer(t)
	state, _ := structpb.NewStruct(map[string]interface{}{"external-id": "node-17"})
	cur, curId := c10Enroll(t, st, state)

	refused := func(name string, req *types.RotateNodeCredentialsRequest) {
		t.Helper()
		before := vrNodeIds(t, st.mem)
		resp, err := rotation.RotateNodeCredentials(ctx, st, req)
		if err == nil && resp != nil && len(resp.EncryptedFetchNodeCredentialsResponse) > 0 {
			t.Errorf("%s: the request was honored", name)
		}
		after := vrNodeIds(t, st.mem)
		for id, n := range after {
			if before[id] == nil {
				t.Errorf("%s: a refused request registered node record %s", name, id)
			} else if !proto.Equal(before[id], n) {
				t.Errorf("%s: a refused request changed node record %s", name, id)
			}
		}
		for id := range before {
			if after[id] == nil {
				t.Errorf("%s: a refused request removed node record %s", name, id)
			}
		}
	}

	// wrong key: payload sealed by another registered node, claiming cur's key
	_, _, r := c10Request(t, bystander, cur.CertificatePublicKeyPkix, nil)
	refused("payload under another node's key", r)
	// unknown node
	stranger, _, _, _ := vrFreshNode(t)
	_, _, r = c10Request(t, cur, stranger.CertificatePublicKeyPkix, nil)
	refused("unknown node", r)
	// activation-token nonces inside (a short one and a real one)
	short, _ := proto.Marshal(&types.ServerLedActivationTokenNonce{Nonce: []byte{1, 2, 3, 4}, HmacKeyBytes: []byte{5, 6, 7, 8}})
	_, _, r = c10Request(t, cur, cur.CertificatePublicKeyPkix, func(i *types.FetchNodeCredentialsInfo) { i.Nonce = short })
	refused("short activation-token nonce inside", r)
	long, _ := proto.Marshal(&types.ServerLedActivationTokenNonce{Nonce: make([]byte, 32), HmacKeyBytes: make([]byte, 32)})
	_, _, r = c10Request(t, cur, cur.CertificatePublicKeyPkix, func(i *types.FetchNodeCredentialsInfo) { i.Nonce = long })
	refused("activation-token nonce inside", r)
	_, tok, err := registration.CreateServerLedActivationToken(ctx, st, &types.ServerLedRegistrationRequest{})
	if err != nil {
		t.Fatal(err)
	}
	tc, treq, _, _ := vrFreshNode(t, nodeenrollment.WithActivationToken(tok))
	_ = tc
	enc, err := nodeenrollment.EncryptMessage(ctx, treq, cur)
	if err != nil {
		t.Fatal(err)
	}
	refused("live activation token inside", &types.RotateNodeCredentialsRequest{CertificatePublicKeyPkix: cur.CertificatePublicKeyPkix, EncryptedFetchNodeCredentialsRequest: enc})
	// garbage payload
	refused("garbage payload", &types.RotateNodeCredentialsRequest{CertificatePublicKeyPkix: cur.CertificatePublicKeyPkix, EncryptedFetchNodeCredentialsRequest: []byte("0123456789abcdef0123456789abcdef")})

	// the legitimate request
	oldRec := vrNodeIds(t, st.mem)[curId]
	newCreds, newKeyId, r := c10Request(t, cur, cur.CertificatePublicKeyPkix, nil)
	resp, err := rotation.RotateNodeCredentials(ctx, st, r)
	if err != nil {
		t.Fatalf("legitimate rotation refused: %v", err)
	}
	recs := vrNodeIds(t, st.mem)
	if recs[newKeyId] == nil {
		t.Fatalf("the new certificate key was not registered")
	}
	if !proto.Equal(recs[newKeyId].State, state) {
		t.Errorf("the new record does not carry over the state of the old record")
	}
	if !proto.Equal(recs[curId], oldRec) || !proto.Equal(recs[bystanderId], vrNodeIds(t, st.mem)[bystanderId]) {
		t.Errorf("the rotation changed the old record")
	}
	// reply opens only with the current shared key of the record ...
	fr := new(types.FetchNodeCredentialsResponse)
	if err := nodeenrollment.DecryptMessage(ctx, resp.EncryptedFetchNodeCredentialsResponse, bystander, fr); err == nil {
		t.Errorf("the reply opens with another node's key")
	}
	if err := nodeenrollment.DecryptMessage(ctx, resp.EncryptedFetchNodeCredentialsResponse, newCreds, new(types.FetchNodeCredentialsResponse)); err == nil {
		t.Errorf("the reply opens without the old record's shared key")
	}
	fr = new(types.FetchNodeCredentialsResponse)
	if err := nodeenrollment.DecryptMessage(ctx, resp.EncryptedFetchNodeCredentialsResponse, cur, fr); err != nil {
		t.Fatalf("the reply does not open with the record's current shared key: %v", err)
	}
	// ... and the credentials inside only with the new key
	if vrOpens(cur, fr) || vrOpens(bystander, fr) {
		t.Errorf("the credentials inside the reply open with a key other than the new one")
	}
	if !vrOpens(newCreds, fr) {
		t.Errorf("the credentials inside the reply do not open with the new key")
	}
	// replayed payload
	refused("replayed payload", r)

	// recorded previous encryption key: the record of the new key records the old key pair as previous
	newRec := recs[newKeyId]
	if err := newRec.SetPreviousEncryptionKey(oldRec); err != nil {
		t.Fatal(err)
	}
	if err := newRec.Store(ctx, st.mem); err != nil {
		t.Fatal(err)
	}
	_, thirdId, r3 := c10Request(t, cur, newCreds.CertificatePublicKeyPkix, nil)
	if _, err := rotation.RotateNodeCredentials(ctx, st, r3); err != nil {
		t.Errorf("a payload under the record's recorded previous key was refused: %v", err)
	} else if vrNodeIds(t, st.mem)[thirdId] == nil {
		t.Errorf("rotation under the previous key registered nothing")
	}
	// but not under a key that is neither current nor previous
	_, _, r4 := c10Request(t, bystander, newCreds.CertificatePublicKeyPkix, nil)
	refused("payload under a key that is neither current nor previous", r4)
}

// Node-id lookups (a storage that implements NodeIdLoader): a request naming a node id is honored only
// against the records of that node id.
func TestVerifReplayC10NodeId(t *testing.T) {
	ctx := context.Background()
	st, err := storeonce.New(ctx)
	if err != nil {
		t.Fatal(err)
	}
	if _, err := rotation.RotateRootCertificates(ctx, st); err != nil {
		t.Fatal(err)
	}
	creds, req, keyId, ns := vrFreshNode(t)
	if _, err := registration.AuthorizeNode(ctx, st, req); err != nil {
		t.Fatal(err)
	}
	resp, err := registration.FetchNodeCredentials(ctx, st, req)
	if err != nil {
		t.Fatal(err)
	}
	creds, err = creds.HandleFetchNodeCredentialsResponse(ctx, ns, resp)
	if err != nil {
		t.Fatal(err)
	}
	rec, err := types.LoadNodeInformation(ctx, st, keyId)
	if err != nil {
		t.Fatal(err)
	}
	rec.NodeId = "node-a"
	if err := st.Remove(ctx, rec); err != nil {
		t.Fatal(err)
	}
	if err := rec.Store(ctx, st); err != nil {
		t.Fatal(err)
	}
	count := func() int {
		ids, err := st.List(ctx, (*types.NodeInformation)(nil))
		if err != nil {
			t.Fatal(err)
		}
		return len(ids)
	}
	_, _, r := c10Request(t, creds, creds.CertificatePublicKeyPkix, nil)
	r.NodeId = "node-that-does-not-exist"
	before := count()
	if out, err := rotation.RotateNodeCredentials(ctx, st, r); err == nil && out != nil && len(out.EncryptedFetchNodeCredentialsResponse) > 0 {
		t.Errorf("a rotation request naming an unknown node id was honored")
	}
	if count() != before {
		t.Errorf("a refused rotation request (unknown node id) registered a record")
	}
	// several records under one node id: whichever record's key sealed the payload, the reply opens with that key
	credsB, reqB, keyB, nsB := vrFreshNode(t)
	if _, err := registration.AuthorizeNode(ctx, st, reqB); err != nil {
		t.Fatal(err)
	}
	respB, err := registration.FetchNodeCredentials(ctx, st, reqB)
	if err != nil {
		t.Fatal(err)
	}
	credsB, err = credsB.HandleFetchNodeCredentialsResponse(ctx, nsB, respB)
	if err != nil {
		t.Fatal(err)
	}
	recB, err := types.LoadNodeInformation(ctx, st, keyB)
	if err != nil {
		t.Fatal(err)
	}
	recB.NodeId = "node-a"
	if err := st.Remove(ctx, recB); err != nil {
		t.Fatal(err)
	}
	if err := recB.Store(ctx, st); err != nil {
		t.Fatal(err)
	}
	for name, c := range map[string]*types.NodeCredentials{"first record": creds, "second record": credsB} {
		newCreds, _, rr := c10Request(t, c, creds.CertificatePublicKeyPkix, nil)
		rr.NodeId = "node-a"
		out, err := rotation.RotateNodeCredentials(ctx, st, rr)
		if err != nil {
			t.Errorf("%s of the node id: rotation refused: %v", name, err)
			continue
		}
		fr := new(types.FetchNodeCredentialsResponse)
		if err := nodeenrollment.DecryptMessage(ctx, out.EncryptedFetchNodeCredentialsResponse, c, fr); err != nil {
			t.Errorf("%s of the node id: the reply does not open with the key that sealed the request: %v", name, err)
			continue
		}
		if !vrOpens(newCreds, fr) {
			t.Errorf("%s of the node id: the credentials inside do not open with the new key", name)
		}
	}
}
