package registration_test

// Property-level replay test for C13: every storage operation of every
// enrollment / rotation / token / root-rotation call is made to fail in turn
// (each kind of error, once or from then on); a call that reports success must
// be reflected in storage, a consumed token must be gone, a bystander's record
// must stay as it was.

import (
	"context"
	"fmt"
	"testing"

	"github.com/hashicorp/nodeenrollment"
	"github.com/hashicorp/nodeenrollment/registration"
	"github.com/hashicorp/nodeenrollment/rotation"
	"github.com/hashicorp/nodeenrollment/types"
	"google.golang.org/protobuf/proto"
)

type c13Scenario struct {
	name string
	// prepare runs without faults and returns the call under test; the call
	// returns a description of a violated clause ("" if none)
	prepare func(t *testing.T, st *vrStorage) func() string
}

func c13Scenarios() []c13Scenario {
	ctx := context.Background()
	return []c13Scenario{
		{"authorize", func(t *testing.T, st *vrStorage) func() string {
			_, req, keyId, _ := vrFreshNode(t)
			return func() string {
				ni, err := registration.AuthorizeNode(ctx, st, req)
				stored := vrNodeIds(t, st.mem)[keyId]
				if err == nil && (ni == nil || stored == nil || string(stored.CertificatePublicKeyPkix) != string(ni.CertificatePublicKeyPkix) || string(stored.RegistrationNonce) != string(ni.RegistrationNonce)) {
					return "AuthorizeNode reported success but the node record is not in storage"
				}
				return ""
			}
		}},
		{"fetch-authorized", func(t *testing.T, st *vrStorage) func() string {
			creds, req, keyId, _ := vrFreshNode(t)
			if _, err := registration.AuthorizeNode(ctx, st, req); err != nil {
				t.Fatal(err)
			}
			return func() string {
				resp, err := registration.FetchNodeCredentials(ctx, st, req)
				if err == nil && vrOpens(creds, resp) && vrNodeIds(t, st.mem)[keyId] == nil {
					return "credentials handed out without a stored node record"
				}
				return ""
			}
		}},
		{"token-create", func(t *testing.T, st *vrStorage) func() string {
			return func() string {
				id, tok, err := registration.CreateServerLedActivationToken(ctx, st, &types.ServerLedRegistrationRequest{})
				if err == nil && !vrHasToken(st.mem, id) {
					return "a token was handed out that was not persisted"
				}
				if err != nil && (id != "" || tok != "") {
					return "a token was handed out together with an error"
				}
				return ""
			}
		}},
		{"token-fetch", func(t *testing.T, st *vrStorage) func() string {
			id, tok, err := registration.CreateServerLedActivationToken(ctx, st, &types.ServerLedRegistrationRequest{})
			if err != nil {
				t.Fatal(err)
			}
			creds, req, keyId, _ := vrFreshNode(t, nodeenrollment.WithActivationToken(tok))
			return func() string {
				resp, err := registration.FetchNodeCredentials(ctx, st, req)
				node := vrNodeIds(t, st.mem)[keyId]
				if err == nil && vrOpens(creds, resp, nodeenrollment.WithActivationToken(tok)) && node == nil {
					return "credentials handed out without a stored node record"
				}
				if node != nil && vrHasToken(st.mem, id) {
					return "the token created a node record and is still usable"
				}
				return ""
			}
		}},
		{"rotate-node", func(t *testing.T, st *vrStorage) func() string {
			// a second enrolled node (the one rotating)
			cur, req0, _, ns := vrFreshNode(t)
			if _, err := registration.AuthorizeNode(ctx, st, req0); err != nil {
				t.Fatal(err)
			}
			resp0, err := registration.FetchNodeCredentials(ctx, st, req0)
			if err != nil {
				t.Fatal(err)
			}
			cur, err = cur.HandleFetchNodeCredentialsResponse(ctx, ns, resp0)
			if err != nil {
				t.Fatal(err)
			}
			newCreds, fetchReq, newKeyId, _ := vrFreshNode(t)
			enc, err := nodeenrollment.EncryptMessage(ctx, fetchReq, cur)
			if err != nil {
				t.Fatal(err)
			}
			rreq := &types.RotateNodeCredentialsRequest{CertificatePublicKeyPkix: cur.CertificatePublicKeyPkix, EncryptedFetchNodeCredentialsRequest: enc}
			return func() string {
				resp, err := rotation.RotateNodeCredentials(ctx, st, rreq)
				if err == nil && resp != nil && len(resp.EncryptedFetchNodeCredentialsResponse) > 0 {
					fr := new(types.FetchNodeCredentialsResponse)
					if derr := nodeenrollment.DecryptMessage(ctx, resp.EncryptedFetchNodeCredentialsResponse, cur, fr); derr == nil && vrOpens(newCreds, fr) && vrNodeIds(t, st.mem)[newKeyId] == nil {
						return "rotated credentials handed out without a stored node record"
					}
				}
				return ""
			}
		}},
		{"rotate-roots-bootstrap", func(t *testing.T, st *vrStorage) func() string {
			if err := st.mem.Remove(ctx, &types.RootCertificates{Id: string(nodeenrollment.RootsMessageId)}); err != nil {
				t.Fatal(err)
			}
			return c13RootsCall(t, st)
		}},
		{"rotate-roots-reinit", func(t *testing.T, st *vrStorage) func() string {
			return c13RootsCall(t, st, nodeenrollment.WithReinitializeRoots(true))
		}},
		{"rotate-roots-keep", func(t *testing.T, st *vrStorage) func() string {
			return c13RootsCall(t, st)
		}},
	}
}

func c13RootsCall(t *testing.T, st *vrStorage, opt ...nodeenrollment.Option) func() string {
	ctx := context.Background()
	return func() string {
		ret, err := rotation.RotateRootCertificates(ctx, st, opt...)
		if err != nil {
			if ret != nil {
				return "roots returned together with an error"
			}
			return ""
		}
		stored, lerr := types.LoadRootCertificates(ctx, st.mem)
		if lerr != nil {
			return fmt.Sprintf("rotation reported success but the roots cannot be loaded: %v", lerr)
		}
		if string(stored.Current.CertificateDer) != string(ret.Current.CertificateDer) || string(stored.Next.CertificateDer) != string(ret.Next.CertificateDer) {
			return "rotation reported success for roots that are not the stored ones"
		}
		return ""
	}
}

func TestVerifReplayC13(t *testing.T) {
	for _, sc := range c13Scenarios() {
		// fault-free run to count the operations of the call
		st, _, _ := vrServer(t)
		call := sc.prepare(t, st)
		st.arm(0, nil, false)
		if msg := call(); msg != "" {
			t.Errorf("%s without faults: %s", sc.name, msg)
			continue
		}
		nops := st.disarm()
		if nops == 0 {
			t.Errorf("%s: the call performed no storage operation", sc.name)
		}
		for k := 1; k <= nops+1; k++ {
			for fi, fault := range vrFaults {
				for _, sticky := range []bool{false, true} {
					st, _, bystanderId := vrServer(t)
					before := vrNodeIds(t, st.mem)[bystanderId]
					call := sc.prepare(t, st)
					st.arm(k, fault, sticky)
					msg := call()
					failed := st.failed
					st.disarm()
					where := fmt.Sprintf("%s: operation %d fails (fault %d, sticky=%v, failed ops %v)", sc.name, k, fi, sticky, failed)
					if msg != "" {
						t.Errorf("%s: %s", where, msg)
					}
					after := vrNodeIds(t, st.mem)[bystanderId]
					if after == nil || !proto.Equal(before, after) {
						t.Errorf("%s: another node's record was altered or removed", where)
					}
				}
			}
		}
	}
}
