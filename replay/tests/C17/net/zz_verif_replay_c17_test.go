package net_test

// Property-level replay test for C17: real connections over loopback through
// an intercepting listener and a split listener; which sub-listener receives
// which connection, and of what type.

import (
	"context"
	"crypto/ed25519"
	"crypto/rand"
	"crypto/tls"
	"crypto/x509"
	"math/big"
	"net"
	"testing"
	"time"

	"github.com/hashicorp/nodeenrollment"
	nodeenet "github.com/hashicorp/nodeenrollment/net"
	"github.com/hashicorp/nodeenrollment/protocol"
	nodetesting "github.com/hashicorp/nodeenrollment/testing"
)

type c17Got struct {
	name string
	conn net.Conn
}

type c17Env struct {
	t       *testing.T
	ctx     context.Context
	storage nodeenrollment.Storage
	addr    string
	baseTls *tls.Config
	got     chan c17Got
	split   *nodeenet.SplitListener
	baseLn  net.Listener
}

func c17Setup(t *testing.T, names map[string][]nodeenrollment.Option) *c17Env {
	t.Helper()
	ctx, storage, _ := nodetesting.CommonTestParams(t)
	baseLn, err := net.Listen("tcp4", "127.0.0.1:0")
	if err != nil {
		t.Fatal(err)
	}
	pub, priv, _ := ed25519.GenerateKey(rand.Reader)
	template := &x509.Certificate{
		ExtKeyUsage: []x509.ExtKeyUsage{x509.ExtKeyUsageServerAuth, x509.ExtKeyUsageClientAuth}, KeyUsage: x509.KeyUsageDigitalSignature | x509.KeyUsageCertSign,
		SerialNumber: big.NewInt(0), NotBefore: time.Now().Add(-30 * time.Second), NotAfter: time.Now().Add(5 * time.Minute),
		BasicConstraintsValid: true, IsCA: true, IPAddresses: []net.IP{net.ParseIP("127.0.0.1")},
	}
	certBytes, err := x509.CreateCertificate(rand.Reader, template, template, pub, priv)
	if err != nil {
		t.Fatal(err)
	}
	cert, _ := x509.ParseCertificate(certBytes)
	pool := x509.NewCertPool()
	pool.AddCert(cert)
	baseTls := &tls.Config{Certificates: []tls.Certificate{{Certificate: [][]byte{certBytes}, PrivateKey: priv, Leaf: cert}}, RootCAs: pool, InsecureSkipVerify: true}
	authing, err := protocol.NewInterceptingListener(&protocol.InterceptingListenerConfiguration{Context: ctx, Storage: storage, BaseListener: baseLn, BaseTlsConfiguration: baseTls})
	if err != nil {
		t.Fatal(err)
	}
	split, err := nodeenet.NewSplitListener(authing)
	if err != nil {
		t.Fatal(err)
	}
	env := &c17Env{t: t, ctx: ctx, storage: storage, addr: authing.Addr().String(), baseTls: baseTls, got: make(chan c17Got, 16), split: split, baseLn: baseLn}
	for name, opt := range names {
		ln, err := split.GetListener(name, opt...)
		if err != nil {
			t.Fatal(err)
		}
		go func(name string, ln net.Listener) {
			for {
				c, err := ln.Accept()
				if err != nil {
					return
				}
				env.got <- c17Got{name, c}
			}
		}(name, ln)
	}
	go split.Start()
	t.Cleanup(func() { baseLn.Close() })
	return env
}

// expect waits for the next delivery and checks who received it ("" = nobody within the timeout).
func (e *c17Env) expect(what, want string) net.Conn {
	e.t.Helper()
	select {
	case g := <-e.got:
		if g.name != want {
			e.t.Errorf("%s: delivered to sub-listener %q, want %q", what, g.name, orNobody(want))
		}
		return g.conn
	case <-time.After(700 * time.Millisecond):
		if want != "" {
			e.t.Errorf("%s: delivered to nobody, want %q", what, want)
		}
		return nil
	}
}

func orNobody(s string) string {
	if s == "" {
		return "nobody (closed)"
	}
	return s
}

func (e *c17Env) dialNode(extra ...string) {
	e.t.Helper()
	var opt []nodeenrollment.Option
	if len(extra) > 0 {
		opt = append(opt, nodeenrollment.WithExtraAlpnProtos(extra))
	}
	conn, err := protocol.Dial(e.ctx, e.storage, e.addr, opt...)
	if err != nil {
		e.t.Fatalf("registered node could not dial: %v", err)
	}
	e.t.Cleanup(func() { conn.Close() })
}

func (e *c17Env) dialPlainTls(protos ...string) {
	e.t.Helper()
	cfg := e.baseTls.Clone()
	cfg.NextProtos = protos
	conn, err := tls.Dial("tcp4", e.addr, cfg)
	if err == nil {
		e.t.Cleanup(func() { conn.Close() })
	}
}

func TestVerifReplayC17(t *testing.T) {
	all := map[string][]nodeenrollment.Option{
		"x": nil, "y": nil, "native": {nodeenrollment.WithNativeConns(true)},
		nodeenet.AuthenticatedNonSpecificNextProto: nil, nodeenet.UnauthenticatedNextProto: nil,
	}
	e := c17Setup(t, all)
	e.dialNode("nope", "y")
	if c := e.expect("authenticated, second offered name registered", "y"); c != nil {
		if _, ok := c.(*tls.Conn); !ok {
			t.Errorf("a sub-listener without native connections handed out a %T", c)
		}
	}
	e.dialNode("native")
	if c := e.expect("authenticated, native listener", "native"); c != nil {
		if _, ok := c.(*protocol.Conn); !ok {
			t.Errorf("a sub-listener with native connections handed out a %T", c)
		}
	}
	e.dialNode("nope")
	e.expect("authenticated, no offered name registered", nodeenet.AuthenticatedNonSpecificNextProto)
	e.dialNode()
	e.expect("authenticated, nothing offered", nodeenet.AuthenticatedNonSpecificNextProto)
	e.dialPlainTls("y")
	e.expect("not authenticated, offering a registered name", nodeenet.UnauthenticatedNextProto)
	e.dialPlainTls(nodeenet.AuthenticatedNonSpecificNextProto)
	e.expect("not authenticated, offering the authenticated name", nodeenet.UnauthenticatedNextProto)
	e.dialPlainTls()
	e.expect("not authenticated", nodeenet.UnauthenticatedNextProto)

	// without the two special sub-listeners: closed, never handed to a specific authenticated one
	e2 := c17Setup(t, map[string][]nodeenrollment.Option{"x": nil})
	e2.dialPlainTls("x")
	e2.expect("not authenticated, no unauthenticated sub-listener", "")
	e2.dialNode("nope")
	e2.expect("authenticated, nothing registered for it", "")
	e2.dialNode("x")
	e2.expect("authenticated, offered name registered", "x")
}
