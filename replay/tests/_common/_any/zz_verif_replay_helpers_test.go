package PKG_test

// Helpers shared by the property-level replay tests of this package: a
// fault-injecting, operation-recording storage around the in-memory storage.

import (
	"crypto"
	"crypto/rand"
	"crypto/x509"
	"context"
	"errors"
	"fmt"
	"sync"
	"testing"

	"github.com/hashicorp/nodeenrollment"
	"github.com/hashicorp/nodeenrollment/registration"
	"github.com/hashicorp/nodeenrollment/rotation"
	"github.com/hashicorp/nodeenrollment/storage/inmem"
	"github.com/hashicorp/nodeenrollment/types"
	"google.golang.org/protobuf/proto"
)

type vrOp struct {
	Kind string // Store, Load, Remove, List
	Msg  proto.Message
}

// vrStorage forwards to an in-memory storage; operation number failAt (1-based,
// counted over all operations; 0 = never) fails with failErr and has no effect;
// with sticky every later operation fails as well.
type vrStorage struct {
	mu      sync.Mutex
	mem     nodeenrollment.Storage
	n       int
	failAt  int
	sticky  bool
	failErr error
	ops     []vrOp
	failed  []string
}

func vrNew(t *testing.T) *vrStorage {
	t.Helper()
	mem, err := inmem.New(context.Background())
	if err != nil {
		t.Fatal(err)
	}
	return &vrStorage{mem: mem}
}

func (s *vrStorage) arm(k int, err error, sticky bool) { s.n, s.failAt, s.failErr, s.sticky, s.failed = 0, k, err, sticky, nil }
func (s *vrStorage) disarm() int                      { n := s.n; s.failAt, s.sticky = 0, false; return n }

func (s *vrStorage) step(kind string, m proto.Message) error {
	s.mu.Lock()
	defer s.mu.Unlock()
	s.n++
	if m != nil {
		s.ops = append(s.ops, vrOp{kind, proto.Clone(m)})
	}
	if s.failAt != 0 && (s.n == s.failAt || (s.sticky && s.n > s.failAt)) {
		s.failed = append(s.failed, fmt.Sprintf("%s#%d", kind, s.n))
		return s.failErr
	}
	return nil
}

func (s *vrStorage) Store(ctx context.Context, m nodeenrollment.MessageWithId) error {
	if err := s.step("Store", m); err != nil {
		return err
	}
	return s.mem.Store(ctx, m)
}

func (s *vrStorage) Load(ctx context.Context, m nodeenrollment.MessageWithId) error {
	if err := s.step("Load", nil); err != nil {
		return err
	}
	return s.mem.Load(ctx, m)
}

func (s *vrStorage) Remove(ctx context.Context, m nodeenrollment.MessageWithId) error {
	if err := s.step("Remove", m); err != nil {
		return err
	}
	return s.mem.Remove(ctx, m)
}

func (s *vrStorage) List(ctx context.Context, m proto.Message) ([]string, error) {
	if err := s.step("List", nil); err != nil {
		return nil, err
	}
	return s.mem.List(ctx, m)
}

var vrFaults = []error{
	errors.New("verif: injected storage failure"),
	fmt.Errorf("verif: injected: %w", nodeenrollment.ErrNotFound),
	&types.DuplicateRecordError{},
	context.DeadlineExceeded,
}

func vrNodeIds(t *testing.T, st nodeenrollment.Storage) map[string]*types.NodeInformation {
	t.Helper()
	ctx := context.Background()
	ids, err := st.List(ctx, (*types.NodeInformation)(nil))
	if err != nil {
		t.Fatal(err)
	}
	out := map[string]*types.NodeInformation{}
	for _, id := range ids {
		n := &types.NodeInformation{Id: id}
		if err := st.Load(ctx, n); err != nil {
			t.Fatal(err)
		}
		out[id] = n
	}
	return out
}

func vrHasToken(st nodeenrollment.Storage, id string) bool {
	return st.Load(context.Background(), &types.ServerLedActivationToken{Id: id}) == nil
}

// vrFreshNode makes node-side credentials (own storage) and their fetch request.
func vrFreshNode(t *testing.T, opt ...nodeenrollment.Option) (*types.NodeCredentials, *types.FetchNodeCredentialsRequest, string, nodeenrollment.Storage) {
	t.Helper()
	ctx := context.Background()
	ns, err := inmem.New(ctx)
	if err != nil {
		t.Fatal(err)
	}
	creds, err := types.NewNodeCredentials(ctx, ns, opt...)
	if err != nil {
		t.Fatal(err)
	}
	req, err := creds.CreateFetchNodeCredentialsRequest(ctx, opt...)
	if err != nil {
		t.Fatal(err)
	}
	keyId, err := nodeenrollment.KeyIdFromPkix(creds.CertificatePublicKeyPkix)
	if err != nil {
		t.Fatal(err)
	}
	return creds, req, keyId, ns
}

// vrEnrolled returns a server storage with roots and one fully enrolled bystander node.
func vrServer(t *testing.T) (*vrStorage, *types.NodeCredentials, string) {
	t.Helper()
	ctx := context.Background()
	st := vrNew(t)
	if _, err := rotation.RotateRootCertificates(ctx, st); err != nil {
		t.Fatal(err)
	}
	creds, req, keyId, ns := vrFreshNode(t)
	if _, err := registration.AuthorizeNode(ctx, st, req); err != nil {
		t.Fatal(err)
	}
	resp, err := registration.FetchNodeCredentials(ctx, st, req)
	if err != nil {
		t.Fatal(err)
	}
	creds, err = creds.HandleFetchNodeCredentialsResponse(ctx, ns, resp)
	if err != nil {
		t.Fatal(err)
	}
	return st, creds, keyId
}

// vrOpens reports whether resp carries credentials the node can open.
func vrOpens(creds *types.NodeCredentials, resp *types.FetchNodeCredentialsResponse, opt ...nodeenrollment.Option) bool {
	if resp == nil || len(resp.EncryptedNodeCredentials) == 0 {
		return false
	}
	ns, _ := inmem.New(context.Background())
	c := proto.Clone(creds).(*types.NodeCredentials)
	out, err := c.HandleFetchNodeCredentialsResponse(context.Background(), ns, resp, opt...)
	return err == nil && out != nil && len(out.CertificateBundles) > 0
}

// vrResign rebuilds the fetch request of creds with an altered bundle, signed
// again with the node's own certificate key (what the holder of that key can do).
func vrResign(t *testing.T, creds *types.NodeCredentials, req *types.FetchNodeCredentialsRequest, mutate func(*types.FetchNodeCredentialsInfo)) *types.FetchNodeCredentialsRequest {
	t.Helper()
	info := new(types.FetchNodeCredentialsInfo)
	if err := proto.Unmarshal(req.Bundle, info); err != nil {
		t.Fatal(err)
	}
	mutate(info)
	b, err := proto.Marshal(info)
	if err != nil {
		t.Fatal(err)
	}
	key, err := x509.ParsePKCS8PrivateKey(creds.CertificatePrivateKeyPkcs8)
	if err != nil {
		t.Fatal(err)
	}
	sig, err := key.(crypto.Signer).Sign(rand.Reader, b, crypto.Hash(0))
	if err != nil {
		t.Fatal(err)
	}
	out := proto.Clone(req).(*types.FetchNodeCredentialsRequest)
	out.Bundle, out.BundleSignature = b, sig
	return out
}

func rotationRoots(ctx context.Context, st nodeenrollment.Storage, opt ...nodeenrollment.Option) (*types.RootCertificates, error) {
	return rotation.RotateRootCertificates(ctx, st, opt...)
}

// vrTokenUnderFaults: for every storage operation of a token fetch failing in
// turn, one activation token must never enroll two different keys, and a
// fetch that handed out credentials must have consumed the token.
func vrTokenUnderFaults(t *testing.T) {
	t.Helper()
	ctx := context.Background()
	for k := 1; k <= 12; k++ {
		for fi, fault := range vrFaults {
			st := vrNew(t)
			if _, err := rotation.RotateRootCertificates(ctx, st); err != nil {
				t.Fatal(err)
			}
			id, tok, err := registration.CreateServerLedActivationToken(ctx, st, &types.ServerLedRegistrationRequest{})
			if err != nil {
				t.Fatal(err)
			}
			credsA, reqA, keyA, _ := vrFreshNode(t, nodeenrollment.WithActivationToken(tok))
			st.arm(k, fault, false)
			respA, errA := registration.FetchNodeCredentials(ctx, st, reqA)
			st.disarm()
			if errA == nil && vrOpens(credsA, respA, nodeenrollment.WithActivationToken(tok)) && vrHasToken(st.mem, id) {
				t.Errorf("operation %d fails (fault %d): credentials were handed out for a token that is still stored", k, fi)
			}
			_, reqB, keyB, _ := vrFreshNode(t, nodeenrollment.WithActivationToken(tok))
			_, _ = registration.FetchNodeCredentials(ctx, st, reqB)
			nodes := vrNodeIds(t, st.mem)
			if nodes[keyA] != nil && nodes[keyB] != nil {
				t.Errorf("operation %d fails (fault %d): one activation token enrolled two keys", k, fi)
			}
		}
	}
}
