package protocol_test

// Property-level replay tests for the intercepting listener (C02, C14, C15,
// C16), run by the verifier against the real code when an obligation of one of
// these properties fails. They state the properties, not the contracts.

import (
	"context"
	"crypto/tls"
	"encoding/base64"
	"fmt"
	"net"
	"reflect"
	"strings"
	"sync"
	"testing"
	"time"

	"github.com/hashicorp/nodeenrollment"
	"github.com/hashicorp/nodeenrollment/protocol"
	nodetesting "github.com/hashicorp/nodeenrollment/testing"
	nodetls "github.com/hashicorp/nodeenrollment/tls"
	"github.com/hashicorp/nodeenrollment/types"
	"google.golang.org/protobuf/proto"
	"google.golang.org/protobuf/types/known/structpb"
)

type acceptResult struct {
	conn net.Conn
	err  error
}

type lnFixture struct {
	ctx     context.Context
	storage nodeenrollment.NodeIdLoader
	node    *types.NodeCredentials
	ln      *protocol.InterceptingListener
	results chan acceptResult
	options []nodeenrollment.Option
}

func newFixture(t *testing.T, options []nodeenrollment.Option) *lnFixture {
	t.Helper()
	ctx, storage, node := nodetesting.CommonTestParams(t)
	base, err := net.Listen("tcp4", "127.0.0.1:0")
	if err != nil {
		t.Fatal(err)
	}
	ln, err := protocol.NewInterceptingListener(&protocol.InterceptingListenerConfiguration{
		Context: ctx, Storage: storage, BaseListener: base, Options: options,
	})
	if err != nil {
		t.Fatal(err)
	}
	f := &lnFixture{ctx: ctx, storage: storage, node: node, ln: ln, results: make(chan acceptResult, 64), options: options}
	go func() {
		for {
			c, err := ln.Accept()
			f.results <- acceptResult{c, err}
			if err != nil {
				if te, ok := err.(interface{ Temporary() bool }); ok && te.Temporary() {
					continue
				}
				return
			}
		}
	}()
	t.Cleanup(func() { ln.Close() })
	return f
}

func (f *lnFixture) next(t *testing.T) acceptResult {
	t.Helper()
	select {
	case r := <-f.results:
		return r
	case <-time.After(20 * time.Second):
		t.Fatal("listener did not report an accept result: it stopped accepting")
		return acceptResult{}
	}
}

func dialWith(t *testing.T, addr string, cfg *tls.Config) error {
	t.Helper()
	c, err := net.DialTimeout("tcp4", addr, 5*time.Second)
	if err != nil {
		return err
	}
	defer c.Close()
	tc := tls.Client(c, cfg)
	tc.SetDeadline(time.Now().Add(10 * time.Second))
	return tc.Handshake()
}

// C16: reported protocol list == offered list minus the certificate-preference entry, in order; copy semantics; state.
func TestVerifReplayC16ListAndState(t *testing.T) {
	f := newFixture(t, nil)
	extras := [][]string{nil, {"h2"}, {"a", "b", "a", "a"}, {"x-v1-nodee-certificate-preference-blue", "v1-nodee-certificate-preference", "foo", "v1-nodee-fetch"}, {"zz", "zz"}}
	for i, extra := range extras {
		st, _ := structpb.NewStruct(map[string]interface{}{"k": fmt.Sprint(i), "nested": map[string]interface{}{"a": 1.0}})
		opts := []nodeenrollment.Option{nodeenrollment.WithExtraAlpnProtos(extra)}
		if i%2 == 1 {
			opts = append(opts, nodeenrollment.WithState(st))
		}
		var offered []string
		done := make(chan error, 1)
		go func() {
			cfgs, err := nodetls.ClientConfigs(f.ctx, f.node, opts...)
			if err != nil || len(cfgs) == 0 {
				done <- fmt.Errorf("client configs: %v", err)
				return
			}
			offered = cfgs[0].NextProtos
			done <- dialWith(t, f.ln.Addr().String(), cfgs[0])
		}()
		r := f.next(t)
		if err := <-done; err != nil {
			t.Fatalf("extras %v: dial failed: %v (accept err %v)", extra, err, r.err)
		}
		if r.err != nil {
			t.Fatalf("extras %v: accept error %v", extra, r.err)
		}
		pc := r.conn.(*protocol.Conn)
		var want []string
		for _, p := range offered {
			if !strings.HasPrefix(p, nodeenrollment.CertificatePreferenceV1Prefix) {
				want = append(want, p)
			}
		}
		got := pc.ClientNextProtos()
		if !reflect.DeepEqual(got, want) {
			t.Fatalf("extras %v: ClientNextProtos = %q, want %q", extra, got, want)
		}
		if len(got) > 0 {
			got[0] = "tampered"
			if again := pc.ClientNextProtos(); again[0] == "tampered" {
				t.Fatalf("ClientNextProtos returned the connection's own slice")
			}
		}
		if i%2 == 1 {
			if pc.ClientState() == nil || !proto.Equal(pc.ClientState(), st) {
				t.Fatalf("extras %v: client state %v, want %v", extra, pc.ClientState(), st)
			}
		} else if pc.ClientState() != nil {
			t.Fatalf("extras %v: client state %v, want none", extra, pc.ClientState())
		}
		r.conn.Close()
	}
}

// mutateAuthRequest decodes the ALPN-carried authenticate request of a client config and re-encodes it after f changed it.
func mutateAuthRequest(t *testing.T, cfg *tls.Config, f func(req *types.GenerateServerCertificatesRequest)) {
	t.Helper()
	s, err := nodetls.CombineFromNextProtos(nodeenrollment.AuthenticateNodeNextProtoV1Prefix, cfg.NextProtos)
	if err != nil {
		t.Fatal(err)
	}
	b, err := base64.RawStdEncoding.DecodeString(s)
	if err != nil {
		t.Fatal(err)
	}
	req := new(types.GenerateServerCertificatesRequest)
	if err := proto.Unmarshal(b, req); err != nil {
		t.Fatal(err)
	}
	f(req)
	nb, _ := proto.Marshal(req)
	parts, err := nodetls.BreakIntoNextProtos(nodeenrollment.AuthenticateNodeNextProtoV1Prefix, base64.RawStdEncoding.EncodeToString(nb))
	if err != nil {
		t.Fatal(err)
	}
	var rest []string
	for _, p := range cfg.NextProtos {
		if !strings.HasPrefix(p, nodeenrollment.AuthenticateNodeNextProtoV1Prefix) {
			rest = append(rest, p)
		}
	}
	cfg.NextProtos = append(parts, rest...)
}

// C02: no field of the remote request waives verification; a removed node is rejected; fetch handshakes never yield a connection.
func TestVerifReplayC02Gating(t *testing.T) {
	f := newFixture(t, nil)
	// honest node connects
	cfgs, err := nodetls.ClientConfigs(f.ctx, f.node)
	if err != nil {
		t.Fatal(err)
	}
	done := make(chan error, 1)
	go func() { done <- dialWith(t, f.ln.Addr().String(), cfgs[0]) }()
	r := f.next(t)
	if err := <-done; err != nil || r.err != nil {
		t.Fatalf("honest node did not connect: %v / %v", err, r.err)
	}
	if !strings.HasPrefix(r.conn.(*protocol.Conn).ConnectionState().NegotiatedProtocol, nodeenrollment.AuthenticateNodeNextProtoV1Prefix) {
		t.Fatalf("negotiated %q", r.conn.(*protocol.Conn).ConnectionState().NegotiatedProtocol)
	}
	r.conn.Close()
	// forged nonce signature, with and without the skip flag / node id
	for name, mut := range map[string]func(*types.GenerateServerCertificatesRequest){
		"forged-signature":      func(q *types.GenerateServerCertificatesRequest) { q.NonceSignature[0] ^= 0xff },
		"forged-signature-skip": func(q *types.GenerateServerCertificatesRequest) { q.NonceSignature[0] ^= 0xff; q.SkipVerification = true },
		"no-signature-skip":     func(q *types.GenerateServerCertificatesRequest) { q.NonceSignature = nil; q.SkipVerification = true },
		"forged-signature-nodeid": func(q *types.GenerateServerCertificatesRequest) {
			q.NonceSignature[0] ^= 0xff
			q.NodeId = "some-node"
		},
	} {
		cfgs, err := nodetls.ClientConfigs(f.ctx, f.node)
		if err != nil {
			t.Fatal(err)
		}
		mutateAuthRequest(t, cfgs[0], mut)
		go func() { done <- dialWith(t, f.ln.Addr().String(), cfgs[0]) }()
		r := f.next(t)
		<-done
		if r.err == nil {
			t.Fatalf("%s: listener returned an authenticated connection", name)
		}
	}
	// the node record is removed: the node must no longer authenticate, with or without the skip flag
	keyId, err := nodeenrollment.KeyIdFromPkix(f.node.CertificatePublicKeyPkix)
	if err != nil {
		t.Fatal(err)
	}
	if err := f.storage.Remove(f.ctx, &types.NodeInformation{Id: keyId}); err != nil {
		t.Fatal(err)
	}
	for _, skip := range []bool{false, true} {
		cfgs, err := nodetls.ClientConfigs(f.ctx, f.node)
		if err != nil {
			t.Fatal(err)
		}
		if skip {
			mutateAuthRequest(t, cfgs[0], func(q *types.GenerateServerCertificatesRequest) { q.SkipVerification = true })
		}
		go func() { done <- dialWith(t, f.ln.Addr().String(), cfgs[0]) }()
		r := f.next(t)
		<-done
		if r.err == nil {
			t.Fatalf("removed node (skip flag %v) was authenticated", skip)
		}
	}
}

// C14: garbage under the library prefixes and raw bytes never stop the listener; errors are temporary; an honest node still connects.
func TestVerifReplayC14Garbage(t *testing.T) {
	f := newFixture(t, nil)
	pfx := []string{nodeenrollment.FetchNodeCredsNextProtoV1Prefix, nodeenrollment.AuthenticateNodeNextProtoV1Prefix, nodeenrollment.CertificatePreferenceV1Prefix}
	var lists [][]string
	for _, p := range pfx {
		lists = append(lists, []string{p}, []string{p + "0"}, []string{p + "00"}, []string{p + "00-"}, []string{p + "00-!!!notbase64"},
			[]string{p + "00-" + base64.RawStdEncoding.EncodeToString([]byte{0xff, 0xff, 0xff, 0x01})},
			[]string{p + "00-" + base64.RawStdEncoding.EncodeToString([]byte{0x0a, 0x02, 0x01})},
			[]string{p + "00-CgA", p + "01-CgA", pfx[0] + "1", pfx[1] + "x"})
	}
	// a well-formed BlobInfo with a short ciphertext inside a fetch request
	short, _ := proto.Marshal(&types.FetchNodeCredentialsRequest{Bundle: []byte{1}, BundleSignature: []byte{2}, RewrappedWrappingRegistrationFlowInfo: []byte{0x0a, 0x03, 1, 2, 3}, RewrappingKeyId: "x"})
	parts, _ := nodetls.BreakIntoNextProtos(pfx[0], base64.RawStdEncoding.EncodeToString(short))
	lists = append(lists, parts)
	for _, l := range lists {
		done := make(chan error, 1)
		go func() {
			done <- dialWith(t, f.ln.Addr().String(), &tls.Config{InsecureSkipVerify: true, NextProtos: l, MinVersion: tls.VersionTLS13})
		}()
		r := f.next(t)
		<-done
		if r.err == nil {
			t.Fatalf("protos %q: listener returned a connection", l)
		}
		te, ok := r.err.(interface{ Temporary() bool })
		if !ok || !te.Temporary() {
			t.Fatalf("protos %q: error is not temporary: %v", l, r.err)
		}
	}
	// raw non-TLS bytes
	c, err := net.Dial("tcp4", f.ln.Addr().String())
	if err != nil {
		t.Fatal(err)
	}
	c.Write([]byte("GET / HTTP/1.1\r\n\r\n"))
	c.Close()
	r := f.next(t)
	if te, ok := r.err.(interface{ Temporary() bool }); r.err == nil || !ok || !te.Temporary() {
		t.Fatalf("raw bytes: want a temporary error, got %v", r.err)
	}
	// an honest node still connects
	cfgs, err := nodetls.ClientConfigs(f.ctx, f.node)
	if err != nil {
		t.Fatal(err)
	}
	done := make(chan error, 1)
	go func() { done <- dialWith(t, f.ln.Addr().String(), cfgs[0]) }()
	r = f.next(t)
	if err := <-done; err != nil || r.err != nil {
		t.Fatalf("honest node after garbage: %v / %v", err, r.err)
	}
}

// C15: handshakes must not write into the application's option slice (spare capacity) nor depend on each other.
func TestVerifReplayC15OptionSlice(t *testing.T) {
	backing := make([]nodeenrollment.Option, 1, 8)
	backing[0] = nodeenrollment.WithCertificateLifetime(time.Hour)
	f := newFixture(t, backing)
	var wg sync.WaitGroup
	for i := 0; i < 4; i++ {
		wg.Add(1)
		go func() {
			defer wg.Done()
			cfgs, err := nodetls.ClientConfigs(f.ctx, f.node)
			if err != nil {
				return
			}
			_ = dialWith(t, f.ln.Addr().String(), cfgs[0])
		}()
	}
	for i := 0; i < 4; i++ {
		r := f.next(t)
		if r.err != nil {
			t.Fatalf("handshake %d failed: %v", i, r.err)
		}
		r.conn.Close()
	}
	wg.Wait()
	full := backing[:cap(backing)]
	for i := 1; i < len(full); i++ {
		if full[i] != nil {
			t.Fatalf("the listener wrote an option into the application's backing array at index %d", i)
		}
	}
}
