package registration_test

// Property-level replay test for C01: a fetch is answered with credentials
// only for (a) an existing matching node record, (b) an unused unexpired
// token of this server, (c) matching registration info sealed with the
// registration wrapper or re-sealed by a registered node; every other request
// gets nothing and leaves no new node record.

import (
	"context"
	"crypto/rand"
	"testing"
	"time"

	"github.com/hashicorp/go-kms-wrapping/v2/aead"
	"github.com/hashicorp/nodeenrollment"
	"github.com/hashicorp/nodeenrollment/registration"
	"github.com/hashicorp/nodeenrollment/types"
	"google.golang.org/protobuf/proto"
)

func c01Flip(b []byte) []byte {
	out := append([]byte{}, b...)
	out[len(out)/2] ^= 0x40
	return out
}

func TestVerifReplayC01(t *testing.T) {
	ctx := context.Background()
	st, bystander, bystanderId := vrServer(t)
	refused := func(name string, creds *types.NodeCredentials, req *types.FetchNodeCredentialsRequest, opt ...nodeenrollment.Option) {
		t.Helper()
		before := vrNodeIds(t, st.mem)
		resp, err := registration.FetchNodeCredentials(ctx, st, req, opt...)
		if err == nil && resp != nil && len(resp.EncryptedNodeCredentials) > 0 {
			t.Errorf("%s: the request was answered with credentials", name)
		}
		after := vrNodeIds(t, st.mem)
		for id, n := range after {
			if before[id] == nil {
				t.Errorf("%s: a refused request left a new node record %s", name, id)
			} else if !proto.Equal(before[id], n) {
				t.Errorf("%s: a refused request changed node record %s", name, id)
			}
		}
	}
	answered := func(name string, creds *types.NodeCredentials, req *types.FetchNodeCredentialsRequest, opt ...nodeenrollment.Option) {
		t.Helper()
		resp, err := registration.FetchNodeCredentials(ctx, st, req, opt...)
		if err != nil || !vrOpens(creds, resp, opt...) {
			t.Errorf("%s: a legitimate request was not answered (err=%v)", name, err)
		}
	}

	// --- unauthorized node-led request
	creds, req, keyId, _ := vrFreshNode(t)
	refused("unauthorized", creds, req)
	// (a) authorized
	if _, err := registration.AuthorizeNode(ctx, st, req); err != nil {
		t.Fatal(err)
	}
	answered("authorized", creds, req)
	answered("authorized again", creds, req)
	// authorized request altered in nonce / encryption key / certificate key
	nonce2 := make([]byte, nodeenrollment.NonceSize)
	rand.Read(nonce2)
	refused("altered nonce", creds, vrResign(t, creds, req, func(i *types.FetchNodeCredentialsInfo) { i.Nonce = nonce2 }))
	refused("flipped nonce", creds, vrResign(t, creds, req, func(i *types.FetchNodeCredentialsInfo) { i.Nonce = c01Flip(i.Nonce) }))
	other, otherReq, _, _ := vrFreshNode(t)
	otherInfo := new(types.FetchNodeCredentialsInfo)
	proto.Unmarshal(otherReq.Bundle, otherInfo)
	refused("altered encryption key", creds, vrResign(t, creds, req, func(i *types.FetchNodeCredentialsInfo) { i.EncryptionPublicKeyBytes = otherInfo.EncryptionPublicKeyBytes }))
	// another certificate key claiming the authorized nonce and encryption key
	thisInfo := new(types.FetchNodeCredentialsInfo)
	proto.Unmarshal(req.Bundle, thisInfo)
	refused("altered certificate key", other, vrResign(t, other, otherReq, func(i *types.FetchNodeCredentialsInfo) {
		i.Nonce, i.EncryptionPublicKeyBytes = thisInfo.Nonce, thisInfo.EncryptionPublicKeyBytes
	}))
	// bystander's record with a different nonce
	_ = bystander
	_ = bystanderId
	_ = keyId

	// --- (b) activation tokens
	tokId, tok, err := registration.CreateServerLedActivationToken(ctx, st, &types.ServerLedRegistrationRequest{})
	if err != nil {
		t.Fatal(err)
	}
	tc, treq, _, _ := vrFreshNode(t, nodeenrollment.WithActivationToken(tok))
	// a token this server never created (same shape, other secret)
	st2 := vrNew(t)
	_, foreignTok, err := registration.CreateServerLedActivationToken(ctx, st2, &types.ServerLedRegistrationRequest{})
	if err != nil {
		t.Fatal(err)
	}
	fc, freq, _, _ := vrFreshNode(t, nodeenrollment.WithActivationToken(foreignTok))
	refused("token of another server", fc, freq, nodeenrollment.WithActivationToken(foreignTok))
	// token with altered nonce part (hmac key kept): id differs -> unknown
	refused("altered token", tc, vrResign(t, tc, treq, func(i *types.FetchNodeCredentialsInfo) {
		tn := new(types.ServerLedActivationTokenNonce)
		proto.Unmarshal(i.Nonce, tn)
		tn.Nonce = c01Flip(tn.Nonce)
		i.Nonce, _ = proto.Marshal(tn)
	}))
	refused("token with altered hmac key", tc, vrResign(t, tc, treq, func(i *types.FetchNodeCredentialsInfo) {
		tn := new(types.ServerLedActivationTokenNonce)
		proto.Unmarshal(i.Nonce, tn)
		tn.HmacKeyBytes = c01Flip(tn.HmacKeyBytes)
		i.Nonce, _ = proto.Marshal(tn)
	}))
	if !vrHasToken(st.mem, tokId) {
		t.Fatalf("refused requests consumed the token")
	}
	answered("unused token", tc, treq, nodeenrollment.WithActivationToken(tok))
	// used token, by another key
	uc, ureq, _, _ := vrFreshNode(t, nodeenrollment.WithActivationToken(tok))
	refused("used token", uc, ureq, nodeenrollment.WithActivationToken(tok))
	// expired token
	_, tok3, err := registration.CreateServerLedActivationToken(ctx, st, &types.ServerLedRegistrationRequest{})
	if err != nil {
		t.Fatal(err)
	}
	ec, ereq, _, _ := vrFreshNode(t, nodeenrollment.WithActivationToken(tok3))
	time.Sleep(20 * time.Millisecond)
	refused("expired token", ec, ereq, nodeenrollment.WithActivationToken(tok3), nodeenrollment.WithMaximumServerLedActivationTokenLifetime(10*time.Millisecond))

	// --- (c) wrapping flow
	w := aead.TestWrapper(t)
	w2 := aead.TestWrapper(t)
	wc, wreq, _, _ := vrFreshNode(t, nodeenrollment.WithRegistrationWrapper(w))
	refused("sealed with another wrapper", wc, wreq, nodeenrollment.WithRegistrationWrapper(w2))
	refused("sealed info but server has no wrapper", wc, wreq)
	// sealed info of one node moved into another node's request
	xc, xreq, _, _ := vrFreshNode(t, nodeenrollment.WithRegistrationWrapper(w))
	wInfo := new(types.FetchNodeCredentialsInfo)
	proto.Unmarshal(wreq.Bundle, wInfo)
	refused("sealed info of another node", xc, vrResign(t, xc, xreq, func(i *types.FetchNodeCredentialsInfo) { i.WrappedRegistrationInfo = wInfo.WrappedRegistrationInfo }), nodeenrollment.WithRegistrationWrapper(w))
	// ... with the nonce copied as well (certificate key still differs)
	refused("sealed info and nonce of another node", xc, vrResign(t, xc, xreq, func(i *types.FetchNodeCredentialsInfo) {
		i.WrappedRegistrationInfo, i.Nonce = wInfo.WrappedRegistrationInfo, wInfo.Nonce
	}), nodeenrollment.WithRegistrationWrapper(w))
	// ... own sealed info, altered nonce (certificate key matches, nonce does not)
	refused("sealed info with altered nonce", wc, vrResign(t, wc, wreq, func(i *types.FetchNodeCredentialsInfo) { i.Nonce = nonce2 }), nodeenrollment.WithRegistrationWrapper(w))
	answered("sealed with the registration wrapper", wc, wreq, nodeenrollment.WithRegistrationWrapper(w))
	// re-sealed by a registered node (the bystander)
	rc, rreq, _, _ := vrFreshNode(t)
	rInfo := new(types.FetchNodeCredentialsInfo)
	proto.Unmarshal(rreq.Bundle, rInfo)
	reseal := func(by *types.NodeCredentials, nonce, pk []byte) []byte {
		b, err := nodeenrollment.EncryptMessage(ctx, &types.WrappingRegistrationFlowInfo{Nonce: nonce, CertificatePublicKeyPkix: pk}, by)
		if err != nil {
			t.Fatal(err)
		}
		return b
	}
	withReseal := func(b []byte, keyId string) *types.FetchNodeCredentialsRequest {
		r := proto.Clone(rreq).(*types.FetchNodeCredentialsRequest)
		r.RewrappedWrappingRegistrationFlowInfo, r.RewrappingKeyId = b, keyId
		return r
	}
	_, foreignNode, foreignId := vrServer(t) // registered with another server only
	refused("re-sealed by a node not registered here (claiming a registered key id)", rc, withReseal(reseal(foreignNode, rInfo.Nonce, rInfo.CertificatePublicKeyPkix), bystanderId))
	refused("re-sealed by a node not registered here", rc, withReseal(reseal(foreignNode, rInfo.Nonce, rInfo.CertificatePublicKeyPkix), foreignId))
	refused("re-sealed info with another nonce", rc, withReseal(reseal(bystander, nonce2, rInfo.CertificatePublicKeyPkix), bystanderId))
	refused("re-sealed info with another certificate key", rc, withReseal(reseal(bystander, rInfo.Nonce, otherInfo.CertificatePublicKeyPkix), bystanderId))
	refused("re-sealed info, unknown re-sealing key id", rc, withReseal(reseal(bystander, rInfo.Nonce, rInfo.CertificatePublicKeyPkix), "no-such-key-id"))
	answered("re-sealed by a registered node", rc, withReseal(reseal(bystander, rInfo.Nonce, rInfo.CertificatePublicKeyPkix), bystanderId))
}

func TestVerifReplayC01TokenFaults(t *testing.T) { vrTokenUnderFaults(t) }
