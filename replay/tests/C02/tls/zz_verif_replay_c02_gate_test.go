package tls_test

// C02, server side of the gate: the configuration the listener builds for an
// authenticating node (expected public key pinned) accepts only a client
// certificate that chains to the response's roots AND carries the pinned key.

import (
	"context"
	"crypto/ed25519"
	"crypto/rand"
	cryptotls "crypto/tls"
	"crypto/x509"
	"crypto/x509/pkix"
	"math/big"
	"testing"
	"time"

	"github.com/hashicorp/nodeenrollment"
	"github.com/hashicorp/nodeenrollment/rotation"
	"github.com/hashicorp/nodeenrollment/storage/inmem"
	nodetls "github.com/hashicorp/nodeenrollment/tls"
	"github.com/hashicorp/nodeenrollment/types"
)

func TestVerifReplayC02Gate(t *testing.T) {
	ctx := context.Background()
	st, _ := inmem.New(ctx)
	if _, err := rotation.RotateRootCertificates(ctx, st, nodeenrollment.WithCertificateLifetime(2*time.Hour), nodeenrollment.WithNotBeforeClockSkew(-2*time.Hour)); err != nil {
		t.Fatal(err)
	}
	pub, priv, _ := ed25519.GenerateKey(rand.Reader)
	pkixBytes, _ := x509.MarshalPKIXPublicKey(pub)
	resp, err := nodetls.GenerateServerCertificates(ctx, st, &types.GenerateServerCertificatesRequest{SkipVerification: true, CertificatePublicKeyPkix: pkixBytes})
	if err != nil {
		t.Fatal(err)
	}
	cfg, err := nodetls.ServerConfig(ctx, resp, nodeenrollment.WithExpectedPublicKey(pkixBytes))
	if err != nil {
		t.Fatal(err)
	}
	// a self-signed certificate carrying the pinned key as subject key id (what an unenrolled holder of the key can make)
	tmpl := &x509.Certificate{SerialNumber: big.NewInt(1), Subject: pkix.Name{CommonName: "x"}, SubjectKeyId: pkixBytes, AuthorityKeyId: pkixBytes,
		NotBefore: time.Now().Add(-time.Minute), NotAfter: time.Now().Add(time.Hour), KeyUsage: x509.KeyUsageDigitalSignature | x509.KeyUsageCertSign,
		ExtKeyUsage: []x509.ExtKeyUsage{x509.ExtKeyUsageClientAuth}, BasicConstraintsValid: true, IsCA: true}
	der, err := x509.CreateCertificate(rand.Reader, tmpl, tmpl, pub, priv)
	if err != nil {
		t.Fatal(err)
	}
	self, _ := x509.ParseCertificate(der)
	for _, negotiated := range []string{"", nodeenrollment.AuthenticateNodeNextProtoV1Prefix + "00-x", nodeenrollment.FetchNodeCredsNextProtoV1Prefix + "00-x"} {
		cs := cryptotls.ConnectionState{PeerCertificates: []*x509.Certificate{self}, NegotiatedProtocol: negotiated, HandshakeComplete: true}
		if err := cfg.VerifyConnection(cs); err == nil {
			t.Errorf("negotiated %q: a self-signed certificate carrying the pinned key passes the authenticating configuration", negotiated)
		}
		if err := cfg.VerifyConnection(cryptotls.ConnectionState{NegotiatedProtocol: negotiated}); err == nil {
			t.Errorf("negotiated %q: no peer certificate passes", negotiated)
		}
	}
}
