package registration_test

// BOUNDED stand-in for one tamper step of C06 that the contracts cannot see:
// the ghost Storage contract says that a load hands back the record kept under
// the requested id with that id in it, so "the id the record declares" and
// "the id that was looked up" are the same value in every proof. On a back
// end whose stored bytes were edited they differ. This test moves the WHOLE
// stored record of one token (id field included) into the slot of another one
// - on the in-memory back end through a Load that answers with the other
// record, on the file back end by copying the file - with a storage wrapper,
// and presents the token whose slot was overwritten: the sealed creation time
// was sealed for the other id, so the fetch has to fail, create no node record
// and leave the donor's record alone. 2 back ends x 1 history. It runs on
// every check and is not counted as proved.

import (
	"context"
	"os"
	"path/filepath"
	"testing"

	"github.com/hashicorp/go-kms-wrapping/v2/aead"
	"github.com/hashicorp/nodeenrollment"
	"github.com/hashicorp/nodeenrollment/registration"
	"github.com/hashicorp/nodeenrollment/rotation"
	"github.com/hashicorp/nodeenrollment/storage/file"
	"github.com/hashicorp/nodeenrollment/storage/inmem"
	"github.com/hashicorp/nodeenrollment/types"
	"google.golang.org/protobuf/proto"
)

// vbC06Moved answers a load of the token in slot `to` with the record stored under `from`.
type vbC06Moved struct {
	nodeenrollment.Storage
	from, to string
}

func (s *vbC06Moved) Load(ctx context.Context, msg nodeenrollment.MessageWithId) error {
	if tok, ok := msg.(*types.ServerLedActivationToken); ok && s.to != "" && tok.Id == s.to {
		other := &types.ServerLedActivationToken{Id: s.from}
		if err := s.Storage.Load(ctx, other); err != nil {
			return err
		}
		proto.Reset(tok)
		proto.Merge(tok, other)
		return nil
	}
	return s.Storage.Load(ctx, msg)
}

func TestVerifBoundedC06WholeRecordMoved(t *testing.T) {
	ctx := context.Background()
	for _, bname := range []string{"inmem", "file"} {
		var inner nodeenrollment.Storage
		var dir string
		if bname == "inmem" {
			s, err := inmem.New(ctx)
			if err != nil {
				t.Fatal(err)
			}
			inner = s
		} else {
			dir = t.TempDir()
			s, err := file.New(ctx, file.WithBaseDirectory(dir))
			if err != nil {
				t.Fatal(err)
			}
			inner = s
		}
		st := &vbC06Moved{Storage: inner}
		sopt := []nodeenrollment.Option{nodeenrollment.WithStorageWrapper(aead.TestWrapper(t))}
		if _, err := rotation.RotateRootCertificates(ctx, st, sopt...); err != nil {
			t.Fatalf("%s: %v", bname, err)
		}
		idA, tokA, err := registration.CreateServerLedActivationToken(ctx, st, &types.ServerLedRegistrationRequest{}, sopt...)
		if err != nil {
			t.Fatalf("%s: %v", bname, err)
		}
		idB, tokB, err := registration.CreateServerLedActivationToken(ctx, st, &types.ServerLedRegistrationRequest{}, sopt...)
		if err != nil {
			t.Fatalf("%s: %v", bname, err)
		}
		// the tamper step: B's whole record now sits in A's slot
		if bname == "inmem" {
			st.from, st.to = idB, idA
		} else {
			var pa, pb string
			_ = filepath.Walk(dir, func(p string, fi os.FileInfo, err error) error {
				if err == nil && !fi.IsDir() {
					switch filepath.Base(p) {
					case idA:
						pa = p
					case idB:
						pb = p
					}
				}
				return nil
			})
			if pa == "" || pb == "" {
				t.Fatalf("file: token records not found under %s", dir)
			}
			b, err := os.ReadFile(pb)
			if err != nil {
				t.Fatal(err)
			}
			if err := os.WriteFile(pa, b, 0o600); err != nil {
				t.Fatal(err)
			}
		}
		nodesBefore := len(vrNodeIds(t, inner))
		_, req, _, _ := vrFreshNode(t, nodeenrollment.WithActivationToken(tokA))
		if _, err := registration.FetchNodeCredentials(ctx, st, req, sopt...); err == nil {
			t.Errorf("%s: a token whose slot holds another token's whole record (sealed creation time included) was accepted", bname)
		}
		if n := len(vrNodeIds(t, inner)); n != nodesBefore {
			t.Errorf("%s: the refused fetch created a node record", bname)
		}
		if !vrHasToken(inner, idB) {
			t.Errorf("%s: presenting the overwritten token removed the donor token's record", bname)
		}
		// the donor itself is untouched and still enrolls exactly one node
		st.from, st.to = "", ""
		bc, breq, _, _ := vrFreshNode(t, nodeenrollment.WithActivationToken(tokB))
		resp, err := registration.FetchNodeCredentials(ctx, st, breq, sopt...)
		if err != nil || !vrOpens(bc, resp, nodeenrollment.WithActivationToken(tokB)) {
			t.Errorf("%s: the donor token no longer enrolls its node (%v)", bname, err)
		}
	}
}
