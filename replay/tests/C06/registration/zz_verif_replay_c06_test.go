package registration_test

// Property-level replay test for C06: single use, expiry by the sealed
// creation time, no enrollment of a key that already has a record, stored
// record cannot be edited to extend the token nor sealed values moved between
// tokens, stored record does not reveal the token.

import (
	"bytes"
	"context"
	"strings"
	"testing"
	"time"

	"github.com/hashicorp/go-kms-wrapping/v2/aead"
	"github.com/hashicorp/nodeenrollment"
	"github.com/hashicorp/nodeenrollment/registration"
	"github.com/hashicorp/nodeenrollment/types"
	"github.com/mr-tron/base58"
	"google.golang.org/protobuf/proto"
	"google.golang.org/protobuf/types/known/timestamppb"
)

func TestVerifReplayC06(t *testing.T) {
	ctx := context.Background()
	for _, wrapped := range []bool{false, true} {
		var opt []nodeenrollment.Option
		if wrapped {
			opt = append(opt, nodeenrollment.WithStorageWrapper(aead.TestWrapper(t)))
		}
		st := vrNew(t)
		if _, err := rotationRoots(ctx, st, opt...); err != nil {
			t.Fatal(err)
		}
		mk := func() (string, string) {
			id, tok, err := registration.CreateServerLedActivationToken(ctx, st, &types.ServerLedRegistrationRequest{}, opt...)
			if err != nil {
				t.Fatal(err)
			}
			return id, tok
		}
		fetch := func(tok string, extra ...nodeenrollment.Option) (bool, string) {
			creds, req, keyId, _ := vrFreshNode(t, nodeenrollment.WithActivationToken(tok))
			o := append(append([]nodeenrollment.Option{}, opt...), extra...)
			resp, err := registration.FetchNodeCredentials(ctx, st, req, o...)
			ok := err == nil && vrOpens(creds, resp, nodeenrollment.WithActivationToken(tok))
			return ok, keyId
		}
		mustFail := func(name, tok string, extra ...nodeenrollment.Option) {
			t.Helper()
			before := vrNodeIds(t, st.mem)
			ok, _ := fetch(tok, extra...)
			if ok {
				t.Errorf("wrapped=%v %s: the fetch succeeded", wrapped, name)
			}
			if after := vrNodeIds(t, st.mem); len(after) != len(before) {
				t.Errorf("wrapped=%v %s: a node record was created", wrapped, name)
			}
		}
		// single use
		id, tok := mk()
		if ok, _ := fetch(tok); !ok {
			t.Fatalf("wrapped=%v: a fresh token did not enroll", wrapped)
		}
		if vrHasToken(st.mem, id) {
			t.Errorf("wrapped=%v: the used token is still stored", wrapped)
		}
		mustFail("used token", tok)
		mustFail("used token again", tok)
		// expiry
		_, tok = mk()
		time.Sleep(15 * time.Millisecond)
		mustFail("expired token", tok, nodeenrollment.WithMaximumServerLedActivationTokenLifetime(5*time.Millisecond))
		// a key that already has a node record
		_, tok = mk()
		creds, req0, keyId, _ := vrFreshNode(t)
		if _, err := registration.AuthorizeNode(ctx, st, req0, opt...); err != nil {
			t.Fatal(err)
		}
		recBefore := vrNodeIds(t, st.mem)[keyId]
		treq, err := creds.CreateFetchNodeCredentialsRequest(ctx, nodeenrollment.WithActivationToken(tok))
		if err != nil {
			t.Fatal(err)
		}
		resp, err := registration.FetchNodeCredentials(ctx, st, treq, opt...)
		if err == nil && resp != nil && len(resp.EncryptedNodeCredentials) > 0 {
			t.Errorf("wrapped=%v: a token enrolled a key that already has a node record", wrapped)
		}
		if !proto.Equal(recBefore, vrNodeIds(t, st.mem)[keyId]) {
			t.Errorf("wrapped=%v: a token fetch changed the existing node record of its key", wrapped)
		}
		// what is persisted does not reveal the token
		id, tok = mk()
		raw, err := base58.FastBase58Decoding(strings.TrimPrefix(tok, nodeenrollment.ServerLedActivationTokenPrefix))
		if err != nil {
			t.Fatal(err)
		}
		tn := new(types.ServerLedActivationTokenNonce)
		if err := proto.Unmarshal(raw, tn); err != nil {
			t.Fatal(err)
		}
		for _, op := range st.ops {
			b, _ := proto.Marshal(op.Msg)
			if bytes.Contains(b, tn.Nonce) || bytes.Contains(b, tn.HmacKeyBytes) || bytes.Contains(b, raw) || bytes.Contains(b, []byte(tok)) {
				t.Errorf("wrapped=%v: a %s of %T handed the token's secret to storage", wrapped, op.Kind, op.Msg)
				break
			}
		}
		if !wrapped {
			continue
		}
		// with a storage wrapper: editing the stored record cannot extend the token
		stored := &types.ServerLedActivationToken{Id: id}
		if err := st.mem.Load(ctx, stored); err != nil {
			t.Fatal(err)
		}
		if stored.CreationTime != nil {
			t.Errorf("the creation time is handed to storage in clear")
		}
		edited := proto.Clone(stored).(*types.ServerLedActivationToken)
		edited.CreationTime = timestamppb.New(time.Now().Add(24 * time.Hour))
		if err := st.mem.Store(ctx, edited); err != nil {
			t.Fatal(err)
		}
		time.Sleep(15 * time.Millisecond)
		mustFail("expired token whose stored clear creation time was moved forward", tok, nodeenrollment.WithMaximumServerLedActivationTokenLifetime(5*time.Millisecond))
		// sealed creation time of a younger token moved into the older token's record
		if err := st.mem.Store(ctx, stored); err != nil {
			t.Fatal(err)
		}
		time.Sleep(30 * time.Millisecond)
		id2, _ := mk()
		young := &types.ServerLedActivationToken{Id: id2}
		if err := st.mem.Load(ctx, young); err != nil {
			t.Fatal(err)
		}
		moved := proto.Clone(stored).(*types.ServerLedActivationToken)
		moved.CreationTimeMarshaled = young.CreationTimeMarshaled
		if err := st.mem.Store(ctx, moved); err != nil {
			t.Fatal(err)
		}
		mustFail("old token carrying the sealed creation time of a younger token", tok, nodeenrollment.WithMaximumServerLedActivationTokenLifetime(25*time.Millisecond))
	}
}

func TestVerifReplayC06TokenFaults(t *testing.T) { vrTokenUnderFaults(t) }
