package main

import (
	"go/types"
	"fmt"
	"strings"

	"golang.org/x/tools/go/ssa"
)

// Library specification of sync.Map as a finite map from interface values to
// interface values (TRUSTED; sequential semantics only):
//
//	SM!has : map -> (Array Int Bool)
//	SM!val : map -> (Array Int Int)
//
// Load / Store / LoadOrStore / Delete as usual. Range(f) with a closure f that
// has a contract is summarised by that contract (iteration summary): either f
// returned true for every entry it was called on - then, because a call that
// returns true must leave the state unchanged (clause label `rangepure` of f's
// contract, proved with f), the state is unchanged and f's true-case
// postcondition holds for EVERY entry; or f returned false on some entry (k0,
// v0) present in the map, all earlier calls having returned true - then f's
// contract is applied once to (k0, v0) with result false.

const smHas = "SM!has"
const smVal = "SM!val"

var smHasSort = arrSort(SInt, arrSort(SInt, SBool))
var smValSort = arrSort(SInt, arrSort(SInt, SInt))

func (x *Exec) smRegister() {
	if _, ok := prefixRegistry["SM"]; !ok {
		prefixRegistry["SM"] = [][2]string{{smHas, smHasSort}, {smVal, smValSort}}
	}
}

func (x *Exec) smHasArr(st *State, m Term) Term {
	x.smRegister()
	return Select(x.heapCur(st, smHas, smHasSort), m, arrSort(SInt, SBool))
}

func (x *Exec) smValArr(st *State, m Term) Term {
	x.smRegister()
	return Select(x.heapCur(st, smVal, smValSort), m, arrSort(SInt, SInt))
}

func (x *Exec) smSet(st *State, m Term, k Term, has Term, v *Term) {
	a := x.heapCur(st, smHas, smHasSort)
	x.heapSet(st, smHas, StoreT(a, m, StoreT(x.smHasArr(st, m), k, has)))
	if v != nil {
		b := x.heapCur(st, smVal, smValSort)
		x.heapSet(st, smVal, StoreT(b, m, StoreT(x.smValArr(st, m), k, *v)))
	}
	if !st.Fresh[m.S] {
		st.Dirty[smHas] = true
		st.Dirty[smVal] = true
	}
}

func init() {
	sm := "(*sync.Map)."
	reg(sm+"Load", func(x *Exec, st *State, c *CallCtx) []Outcome {
		m, k := c.Args[0].T, c.Args[1].T
		had := Select(x.smHasArr(st, m), k, SBool)
		v := Select(x.smValArr(st, m), k, SInt)
		return one(st, Val{K: VIface, T: Ite(had, v, IntT(0)), GoT: c.ResT.At(0).Type()}, bval(had))
	})
	reg(sm+"Store", func(x *Exec, st *State, c *CallCtx) []Outcome {
		m, k, v := c.Args[0].T, c.Args[1].T, c.Args[2].T
		x.smSet(st, m, k, BoolT(true), &v)
		return one(st)
	})
	reg(sm+"Delete", func(x *Exec, st *State, c *CallCtx) []Outcome {
		m, k := c.Args[0].T, c.Args[1].T
		x.smSet(st, m, k, BoolT(false), nil)
		return one(st)
	})
	reg(sm+"LoadOrStore", func(x *Exec, st *State, c *CallCtx) []Outcome {
		m, k, v := c.Args[0].T, c.Args[1].T, c.Args[2].T
		had := Select(x.smHasArr(st, m), k, SBool)
		old := Select(x.smValArr(st, m), k, SInt)
		nv := Ite(had, old, v)
		x.smSet(st, m, k, BoolT(true), &nv)
		return one(st, Val{K: VIface, T: nv, GoT: c.ResT.At(0).Type()}, bval(had))
	})
	reg(sm+"Range", func(x *Exec, st *State, c *CallCtx) []Outcome {
		m := c.Args[0].T
		fv := c.Args[1]
		if fv.Fn == nil {
			if cv, ok := closureReg[fv.T.S]; ok {
				fv = cv
			}
		}
		var ct *Contract
		if fv.Fn != nil {
			ct = x.CS.ByKey[funcKey(fv.Fn)]
		}
		if ct == nil || x.Mode == "summary" {
			// no contract for the function ranged with: its effects are not known
			x.note(x.Unspec, "sync.Map.Range with a function that has no contract in "+funcKey(c.Fr.Fn)+" (effects of the callback not modelled)")
			return one(st)
		}
		pure := false
		for _, en := range ct.Ensures {
			if en.Label == "rangepure" {
				pure = true
			}
		}
		if !pure {
			x.errorf("%s: sync.Map.Range summarised by the contract of %s needs a clause labelled rangepure (a call that returns true leaves the state unchanged)", x.TopKey, ct.Key)
			return one(st)
		}
		applied[ct.Key] = true
		has, val := x.smHasArr(st, m), x.smValArr(st, m)
		// ---- outcome A: every call returned true
		all := st.clone()
		{
			kq := Term{"k!rng", SInt}
			env := map[string]Val{}
			for i, f := range fv.Fn.FreeVars {
				if i < len(fv.Bind) {
					b := fv.Bind[i]
					if b.GoT == nil {
						b.GoT = f.Type()
					}
					env["&"+f.Name()] = b
				}
			}
			ps := fv.Fn.Params
			if len(ps) == 2 {
				env[ps[0].Name()] = Val{K: VIface, T: kq, GoT: ps[0].Type()}
				env[ps[1].Name()] = Val{K: VIface, T: Select(val, kq, SInt), GoT: ps[1].Type()}
			}
			env[resultNames(fv.Fn)[0]] = bval(BoolT(true))
			old := all.snapshot()
			body := BoolT(true)
			okAll := true
			for _, en := range ct.Ensures {
				v, err := x.evalExpr(&evalCtx{x: x, st: all, old: old, env: env}, en.E)
				if err != nil {
					x.errorf("%s: Range summary, clause %s of %s: %v", x.TopKey, clauseLabel(en), ct.Key, err)
					okAll = false
					break
				}
				body = And(body, v.T)
			}
			if okAll {
				all.addCmd(fmt.Sprintf("(assert (forall ((k!rng Int)) (! (=> (select %s k!rng) %s) :pattern ((select %s k!rng)))))", has.S, body.S, has.S))
			}
		}
		// ---- outcome B: the call on some present entry returned false
		stop := st.clone()
		k0 := x.fresh(stop, "rngkey", SInt)
		stop.assume(Select(has, k0, SBool))
		ps := fv.Fn.Params
		args := []Val{}
		if len(ps) == 2 {
			args = append(args, Val{K: VIface, T: k0, GoT: ps[0].Type()}, Val{K: VIface, T: Select(val, k0, SInt), GoT: ps[1].Type()})
		}
		cc := &CallCtx{Instr: c.Instr, Common: c.Common, Args: args, Name: ct.Key, Site: c.Site + ".range", Fr: c.Fr, ResT: fv.Fn.Signature.Results(), Bind: fv.Bind}
		outs := x.applyContract(stop, c.Fr, ct, fv.Fn, cc)
		var res []Outcome
		res = append(res, Outcome{St: all})
		for _, o := range outs {
			if len(o.Res) == 1 {
				o.St.assume(Not(o.Res[0].T))
			}
			res = append(res, Outcome{St: o.St})
		}
		return res
	})
}

// smSpec: spec-language access: smHas(m, "key"), smGet(m, "key") for string keys.
func (x *Exec) smSpec(st *State, fn string, a []Val) (Val, bool, error) {
	switch fn {
	case "smHas", "smGet":
		x.declIfaceFns()
		x.strboxDecl()
		if a[1].T.Sort != SStr {
			return Val{}, true, fmt.Errorf("%s: string key expected", fn)
		}
		st0 := types0String()
		tag := x.typeTag(st0)
		x.declareTagDistinct(st0)
		k := app("mkif", SInt, tag, app("strbox", SInt, a[1].T))
		if fn == "smHas" {
			return bval(Select(x.smHasArr(st, a[0].T), k, SBool)), true, nil
		}
		return Val{K: VIface, T: Select(x.smValArr(st, a[0].T), k, SInt), GoT: types.NewInterfaceType(nil, nil)}, true, nil
	}
	return Val{}, false, nil
}

var _ = strings.HasPrefix
var _ ssa.Value

func types0String() types.Type { return types.Typ[types.String] }

// context constructors: non-nil results (TRUSTED; cancellation itself is the
// neverCancelled / done-channel model of the select and Err specifications).
func init() {
	for _, n := range []string{"context.Background", "context.TODO"} {
		reg(n, func(x *Exec, st *State, c *CallCtx) []Outcome {
			v := x.symValue(st, "ctx", c.ResT.At(0).Type(), false)
			st.assume(Neq(v.T, IntT(0)))
			return one(st, v)
		})
	}
	reg("context.WithCancel", func(x *Exec, st *State, c *CallCtx) []Outcome {
		v := x.symValue(st, "ctx", c.ResT.At(0).Type(), false)
		st.assume(Neq(v.T, IntT(0)))
		f := x.symValue(st, "cancel", c.ResT.At(1).Type(), false)
		st.assume(Neq(f.T, IntT(0)))
		return one(st, v, f)
	})
}

// Calling a context.CancelFunc (a function value of that named type) is recorded as a ghost event of the
// path: flag("cancelcalled") in contracts.
func init() {
	reg("dyn:context.CancelFunc", func(x *Exec, st *State, c *CallCtx) []Outcome {
		st.Flags["cancelcalled"] = true
		return one(st)
	})
}
