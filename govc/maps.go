package main

import (
	"fmt"
	"go/types"

	"golang.org/x/tools/go/ssa"
)

// Maps: ref -> (key -> present) and ref -> (key -> value components).
//   M!<K>!<V>!has : Int -> (Array K Bool)
//   M!<K>!<V>!val<suffix> : Int -> (Array K sort)
// Keys must flatten to one component.

func mapPrefix(t types.Type) (string, *types.Map) {
	m := t.Underlying().(*types.Map)
	return "M!" + typeName(m.Key()) + "!" + typeName(m.Elem()), m
}

func keySort(m *types.Map) string {
	cs := comps(m.Key())
	if len(cs) != 1 {
		panic("map key type not supported: " + m.Key().String())
	}
	return cs[0].Sort
}

func (x *Exec) mapArrays(t types.Type) (string, *types.Map, string) {
	p, m := mapPrefix(t)
	ks := keySort(m)
	if _, ok := prefixRegistry[p]; !ok {
		var out [][2]string
		out = append(out, [2]string{p + "!has", arrSort(SInt, arrSort(ks, SBool))})
		for _, c := range comps(m.Elem()) {
			out = append(out, [2]string{p + "!val" + c.Suffix, arrSort(SInt, arrSort(ks, c.Sort))})
		}
		prefixRegistry[p] = out
	}
	return p, m, ks
}

func (x *Exec) mapInit(st *State, t types.Type, r Term) {
	p, _, ks := x.mapArrays(t)
	inner := arrSort(ks, SBool)
	a := x.heapCur(st, p+"!has", arrSort(SInt, inner))
	x.heapSet(st, p+"!has", StoreT(a, r, Term{"((as const " + inner + ") false)", inner}))
}

func (x *Exec) mapUpdate(st *State, fr *Frame, v *ssa.MapUpdate) {
	mv := x.val(fr, v.Map)
	k := x.val(fr, v.Key)
	val := x.val(fr, v.Value)
	p, m, ks := x.mapArrays(v.Map.Type())
	if x.nopanicActive(fr) {
		x.oblige(st, x.obName(fr, "panic."+x.siteName(fr.Fn, v)), Neq(mv.T, IntT(0)), "prove")
	}
	st.assume(Neq(mv.T, IntT(0)))
	kt := flatten(k)[0]
	inner := arrSort(ks, SBool)
	a := x.heapCur(st, p+"!has", arrSort(SInt, inner))
	x.heapSet(st, p+"!has", StoreT(a, mv.T, StoreT(Select(a, mv.T, inner), kt, BoolT(true))))
	ts := flatten(val)
	for i, c := range comps(m.Elem()) {
		in2 := arrSort(ks, c.Sort)
		b := x.heapCur(st, p+"!val"+c.Suffix, arrSort(SInt, in2))
		x.heapSet(st, p+"!val"+c.Suffix, StoreT(b, mv.T, StoreT(Select(b, mv.T, in2), kt, ts[i])))
	}
	if !st.Fresh[mv.T.S] {
		st.Dirty[p+"!has"] = true
	}
}

func (x *Exec) mapDelete(st *State, mv Val, k Val) {
	p, _, ks := x.mapArrays(mv.GoT)
	kt := flatten(k)[0]
	inner := arrSort(ks, SBool)
	a := x.heapCur(st, p+"!has", arrSort(SInt, inner))
	x.heapSet(st, p+"!has", StoreT(a, mv.T, StoreT(Select(a, mv.T, inner), kt, BoolT(false))))
}

func (x *Exec) mapLen(st *State, mv Val) Term {
	x.note(x.Assumed, "len(map) is an arbitrary non-negative number")
	n := x.fresh(st, "maplen", SInt)
	st.assume(Ge(n, IntT(0)))
	return n
}

func (x *Exec) lookup(st *State, fr *Frame, v *ssa.Lookup) Val {
	mv := x.val(fr, v.X)
	k := x.val(fr, v.Index)
	if mv.K == VScalar && mv.T.Sort == SStr {
		// string index (byte)
		return scalar(app("str.to_code", SInt, app("str.at", SStr, mv.T, k.T)), types.Typ[types.Uint8])
	}
	p, m, ks := x.mapArrays(v.X.Type())
	kt := flatten(k)[0]
	inner := arrSort(ks, SBool)
	has := Select(Select(x.heapCur(st, p+"!has", arrSort(SInt, inner)), mv.T, inner), kt, SBool)
	has = And(Neq(mv.T, IntT(0)), has)
	cs := comps(m.Elem())
	ts := make([]Term, len(cs))
	for i, c := range cs {
		in2 := arrSort(ks, c.Sort)
		raw := Select(Select(x.heapCur(st, p+"!val"+c.Suffix, arrSort(SInt, in2)), mv.T, in2), kt, c.Sort)
		ts[i] = Ite(has, raw, zeroTerm(c.Sort))
	}
	val, _ := unflatten(m.Elem(), ts)
	if v.CommaOk {
		return Val{K: VTuple, Parts: []Val{val, scalar(has, types.Typ[types.Bool])}, GoT: v.Type()}
	}
	return val
}

// Range over a map: the iterator carries a ghost visited set
//
//	IT!visited : iterator -> (Array K Bool)
//
// Next either yields a key that is present and not yet visited (and marks it
// visited) or ends, in which case every present key has been visited: each key
// exactly once, in an arbitrary order. (Entries inserted or deleted during the
// iteration are not modelled: recorded as an assumption.) Range over a string
// stays an over-approximation.
const itVisited = "IT!visited"

func (x *Exec) itSort(ks string) string { return arrSort(SInt, arrSort(ks, SBool)) }

func (x *Exec) itRegister(ks string) {
	if _, ok := prefixRegistry["IT"]; !ok {
		prefixRegistry["IT"] = [][2]string{{itVisited + "!" + ks, x.itSort(ks)}}
	}
}

func (x *Exec) rangeInit(st *State, fr *Frame, v *ssa.Range) Val {
	xv := x.val(fr, v.X)
	r := xv
	r.GoT = v.X.Type()
	if _, isMap := v.X.Type().Underlying().(*types.Map); isMap {
		_, _, ks := x.mapArrays(v.X.Type())
		x.itRegister(ks)
		it := x.alloc(st)
		inner := arrSort(ks, SBool)
		name := itVisited + "!" + ks
		a := x.heapCur(st, name, x.itSort(ks))
		x.heapSet(st, name, StoreT(a, it, Term{"((as const " + inner + ") false)", inner}))
		return Val{K: VTuple, Parts: []Val{r, scalar(it, types.Typ[types.Int])}, GoT: v.Type()}
	}
	return Val{K: VTuple, Parts: []Val{r}, GoT: v.Type()}
}

func (x *Exec) rangeNext(st *State, fr *Frame, v *ssa.Next) Val {
	it := x.val(fr, v.Iter)
	src := it.Parts[0]
	tt := v.Type().(*types.Tuple)
	ok := x.fresh(st, "rngok", SBool)
	if v.IsString {
		x.note(x.Outside, "range over string")
		return Val{K: VTuple, Parts: []Val{scalar(ok, tt.At(0).Type()), x.symValue(st, "rngi", tt.At(1).Type(), false), x.symValue(st, "rngr", tt.At(2).Type(), false)}, GoT: tt}
	}
	p, m, ks := x.mapArrays(src.GoT)
	key := x.symValue(st, "rngk", m.Key(), false)
	kt := flatten(key)[0]
	inner := arrSort(ks, SBool)
	hasArr := Select(x.heapCur(st, p+"!has", arrSort(SInt, inner)), src.T, inner)
	has := Select(hasArr, kt, SBool)
	if len(it.Parts) > 1 {
		name := itVisited + "!" + ks
		itr := it.Parts[1].T
		vis := Select(x.heapCur(st, name, x.itSort(ks)), itr, inner)
		st.assume(Implies(ok, And(Neq(src.T, IntT(0)), has, Not(Select(vis, kt, SBool)))))
		done := fmt.Sprintf("(forall ((k!it %s)) (! (=> (select %s k!it) (select %s k!it)) :pattern ((select %s k!it)) :pattern ((select %s k!it))))", ks, hasArr.S, vis.S, hasArr.S, vis.S)
		st.assume(Implies(Not(ok), Or(Eq(src.T, IntT(0)), Term{done, SBool})))
		a := x.heapCur(st, name, x.itSort(ks))
		x.heapSet(st, name, StoreT(a, itr, Ite(ok, StoreT(vis, kt, BoolT(true)), vis)))
		x.note(x.Assumed, "map iteration in "+funcKey(fr.Fn)+": every key present at the start is visited exactly once, in arbitrary order; the map is not modified during the iteration")
	} else {
		st.assume(Implies(ok, And(Neq(src.T, IntT(0)), has)))
		x.note(x.Assumed, "map iteration in "+funcKey(fr.Fn)+": order and number of iterations nondeterministic (over-approximation)")
	}
	cs := comps(m.Elem())
	ts := make([]Term, len(cs))
	for i, c := range cs {
		in2 := arrSort(ks, c.Sort)
		ts[i] = Select(Select(x.heapCur(st, p+"!val"+c.Suffix, arrSort(SInt, in2)), src.T, in2), kt, c.Sort)
	}
	val, _ := unflatten(m.Elem(), ts)
	return Val{K: VTuple, Parts: []Val{scalar(ok, tt.At(0).Type()), key, val}, GoT: tt}
}

// select: nondeterministic ready case, received values arbitrary.
func (x *Exec) selectOp(st *State, fr *Frame, v *ssa.Select) Val {
	tt := v.Type().(*types.Tuple)
	idx := x.fresh(st, "selidx", SInt)
	lo := int64(0)
	if !v.Blocking {
		lo = -1
	}
	st.assume(And(Ge(idx, IntT(lo)), Lt(idx, IntT(int64(len(v.States))))))
	// a context that is never cancelled never has a ready done channel
	for i, sc := range v.States {
		if sc.Dir != types.RecvOnly {
			continue
		}
		if cv := x.val(fr, sc.Chan); cv.K == VScalar {
			if c, ok := doneChans[cv.T.S]; ok {
				x.ufun("neverCancelled", []string{SInt}, SBool)
				st.assume(Implies(app("neverCancelled", SBool, c), Neq(idx, IntT(int64(i)))))
				// remembered for Err(): once the done channel was seen ready the context has an error
				if st.CtxSel == nil {
					st.CtxSel = map[string]Term{}
				}
				took := Eq(idx, IntT(int64(i)))
				if old, ok := st.CtxSel[c.S]; ok {
					took = Or(old, took)
				}
				st.CtxSel[c.S] = took
			}
		}
	}
	parts := []Val{scalar(idx, tt.At(0).Type()), scalar(x.fresh(st, "selok", SBool), tt.At(1).Type())}
	for i := 2; i < tt.Len(); i++ {
		parts = append(parts, x.symValue(st, "selrecv", tt.At(i).Type(), false))
	}
	x.note(x.Assumed, "select in "+funcKey(fr.Fn)+": ready case chosen nondeterministically, received values arbitrary")
	return Val{K: VTuple, Parts: parts, GoT: tt}
}
