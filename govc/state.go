package main

import (
	"fmt"
	"go/types"
	"strconv"
	"strings"

	"golang.org/x/tools/go/ssa"
)

type Frame struct {
	Fn      *ssa.Function
	Env     map[ssa.Value]Val
	Dbg     map[string]Val // source-level names (DebugRef)
	Block   *ssa.BasicBlock
	Prev    *ssa.BasicBlock
	Idx     int
	Visits  map[int]int // loop header block index -> arrivals
	Defers  []deferRec
	CallIns ssa.CallInstruction // instruction in the caller awaiting our result (nil for top)
	Depth   int
	Prefix  string // obligation name prefix for inlined frames
	Results []Val  // set at return (used while running defers)
	InDefer bool
	// loop cut bookkeeping: header block index -> true once havoc'd on this path
	Cut map[int]bool
	// automatic loop frame invariant: header -> arrays with their value before the loop
	LoopFrames map[int][]loopFrameRec
}

type loopFrameRec struct {
	Name, Sort string
	Pre        string
}

type deferRec struct {
	Call *ssa.CallCommon
	Fn   Val
	Args []Val
}

func (f *Frame) clone() *Frame {
	g := *f
	g.Env = make(map[ssa.Value]Val, len(f.Env))
	for k, v := range f.Env {
		g.Env[k] = v
	}
	g.Dbg = make(map[string]Val, len(f.Dbg))
	for k, v := range f.Dbg {
		g.Dbg[k] = v
	}
	g.Visits = make(map[int]int, len(f.Visits))
	for k, v := range f.Visits {
		g.Visits[k] = v
	}
	g.Cut = make(map[int]bool, len(f.Cut))
	for k, v := range f.Cut {
		g.Cut[k] = v
	}
	g.Defers = append([]deferRec(nil), f.Defers...)
	g.LoopFrames = make(map[int][]loopFrameRec, len(f.LoopFrames))
	for k, v := range f.LoopFrames {
		g.LoopFrames[k] = v
	}
	return &g
}

// CallEvent records a call made on this path (for call-site assertions and
// ghost "called" facts).
type CallEvent struct {
	Callee string
	Args   []Val
}

type State struct {
	Cmds   *cmdNode          // path-specific declarations, definitions and assumptions (persistent list)
	WM0    Term              // allocation watermark at function entry
	NonNil map[string]bool   // pointer terms already known (checked) to be non-nil on this path
	Known  *knownSet         // boolean terms assumed on this path (persistent set by text)
	Log    map[string]*logNode // per heap array: chain of point writes since the last opaque update
	Seq    int               // allocation sequence number
	FreshSeq map[string]int  // fresh ref -> sequence number of its allocation
	Older    map[string]int  // term -> sequence number at which the reference was known to exist
	PostEntry map[string]bool // reference terms known to denote objects allocated after function entry
	Heap   map[string]string // heap array name -> current symbol
	Fwd    map[string]Val    // store-to-load forwarding: array prefix + "@" + ref [+ "#" idx]
	Frames []*Frame
	// allocation
	AllocBase Term
	AllocN    int
	Fresh     map[string]bool // ref terms allocated on this path (distinct from each other and from older refs)
	// clock readings
	Clock  []Term
	Trace  []string
	Branch []Term // branch conditions taken (used by closure summaries)
	// meta
	Notes map[string]bool
	Dead  bool
	// StorageOps counts storage operations on this path
	StorageOps int
	// Dirty: heap arrays written at a reference not allocated on this path
	Dirty map[string]bool
	// Flags: ghost events of this path (e.g. the base listener's Accept failed)
	Flags map[string]bool
	// LoopWM: allocation watermark at the most recent loop-head cut (objects allocated in the current
	// iteration lie above it)
	LoopWM Term
	// CtxSel: per context term, the condition under which a select on this path took its Done case
	CtxSel map[string]Term
}

func (s *State) clone() *State {
	t := &State{AllocBase: s.AllocBase, AllocN: s.AllocN, StorageOps: s.StorageOps, WM0: s.WM0, Known: s.Known, LoopWM: s.LoopWM}
	t.Cmds = s.Cmds
	t.Seq = s.Seq
	t.Log = make(map[string]*logNode, len(s.Log))
	for k, v := range s.Log {
		t.Log[k] = v
	}
	t.FreshSeq = make(map[string]int, len(s.FreshSeq))
	for k, v := range s.FreshSeq {
		t.FreshSeq[k] = v
	}
	t.PostEntry = make(map[string]bool, len(s.PostEntry))
	for k, v := range s.PostEntry {
		t.PostEntry[k] = v
	}
	t.Older = make(map[string]int, len(s.Older))
	for k, v := range s.Older {
		t.Older[k] = v
	}
	t.NonNil = make(map[string]bool, len(s.NonNil))
	for k, v := range s.NonNil {
		t.NonNil[k] = v
	}
	t.Heap = make(map[string]string, len(s.Heap))
	for k, v := range s.Heap {
		t.Heap[k] = v
	}
	t.Fwd = make(map[string]Val, len(s.Fwd))
	for k, v := range s.Fwd {
		t.Fwd[k] = v
	}
	t.Fresh = make(map[string]bool, len(s.Fresh))
	for k, v := range s.Fresh {
		t.Fresh[k] = v
	}
	t.Frames = make([]*Frame, len(s.Frames))
	for i, f := range s.Frames {
		t.Frames[i] = f.clone()
	}
	t.Clock = append([]Term(nil), s.Clock...)
	t.Trace = append([]string(nil), s.Trace...)
	t.Branch = append([]Term(nil), s.Branch...)
	t.Notes = s.Notes
	t.Flags = make(map[string]bool, len(s.Flags))
	for k, v := range s.Flags {
		t.Flags[k] = v
	}
	t.Dirty = make(map[string]bool, len(s.Dirty))
	for k, v := range s.Dirty {
		t.Dirty[k] = v
	}
	if len(s.CtxSel) > 0 {
		t.CtxSel = make(map[string]Term, len(s.CtxSel))
		for k, v := range s.CtxSel {
			t.CtxSel[k] = v
		}
	}
	return t
}

// snapshot is a cheap frozen copy used for old(): only heap view matters.
func (s *State) snapshot() *State {
	t := &State{AllocBase: s.AllocBase, AllocN: s.AllocN, WM0: s.WM0, Cmds: s.Cmds}
	t.Heap = make(map[string]string, len(s.Heap))
	for k, v := range s.Heap {
		t.Heap[k] = v
	}
	t.Fwd = make(map[string]Val, len(s.Fwd))
	for k, v := range s.Fwd {
		t.Fwd[k] = v
	}
	t.Fresh = s.Fresh
	t.FreshSeq = s.FreshSeq
	t.PostEntry = s.PostEntry
	t.Older = s.Older
	t.Seq = s.Seq
	t.Log = make(map[string]*logNode, len(s.Log))
	for k, v := range s.Log {
		t.Log[k] = v
	}
	t.Clock = append([]Term(nil), s.Clock...)
	return t
}

// cmdNode: persistent (shared-prefix) list of SMT commands.
type cmdNode struct {
	parent *cmdNode
	line   string
	n      int
}

func (s *State) addCmd(line string) {
	n := 1
	if s.Cmds != nil {
		n = s.Cmds.n + 1
	}
	s.Cmds = &cmdNode{parent: s.Cmds, line: line, n: n}
}

func (c *cmdNode) lines() []string {
	if c == nil {
		return nil
	}
	out := make([]string, c.n)
	for p := c; p != nil; p = p.parent {
		out[p.n-1] = p.line
	}
	return out
}

func (s *State) top() *Frame { return s.Frames[len(s.Frames)-1] }

// ---------------------------------------------------------------- engine-global context

type Ctx struct {
	Prog     *Program
	Reg      *Registry
	CS       *ContractSet
	counter  int
	Unspec   map[string]bool // unspecified external calls met
	Assumed  map[string]bool // assumptions used (text)
	Outside  map[string]bool // constructs outside the subset
	optSumm  map[*ssa.Function]*optSummary
	loopInfo map[*ssa.Function]*loopInfo
	modCache map[*ssa.Function]map[string]bool
}

func (c *Ctx) uniq() int { c.counter++; return c.counter }

func (c *Ctx) note(m map[string]bool, s string) { m[s] = true }

// fresh declares a new path-local constant.
func (c *Ctx) fresh(st *State, prefix, sort string) Term {
	name := prefix + "~" + strconv.Itoa(c.uniq())
	st.addCmd("(declare-const " + sym(name) + " " + sort + ")")
	return Term{sym(name), sort}
}

type logNode struct {
	parent *logNode
	ref    Term
	val    Term
	after  string // array symbol after this write
	before string // array symbol before this write
}

// distinct: the two reference terms certainly denote different objects.
func (st *State) distinct(a, b Term) bool {
	if a.S == b.S {
		return false
	}
	if x, ok := litInt(a); ok {
		if y, ok2 := litInt(b); ok2 {
			return x != y
		}
	}
	fa, fb := st.Fresh[a.S], st.Fresh[b.S]
	if fa && fb {
		return true
	}
	if (fa || st.PostEntry[a.S]) && st.isEntryOld(b) {
		return true
	}
	if (fb || st.PostEntry[b.S]) && st.isEntryOld(a) {
		return true
	}
	if fa {
		if o, ok := st.Older[b.S]; ok && o < st.FreshSeq[a.S] {
			return true
		}
		if isLit(b, "0") {
			return true
		}
	}
	if fb {
		if o, ok := st.Older[a.S]; ok && o < st.FreshSeq[b.S] {
			return true
		}
		if isLit(a, "0") {
			return true
		}
	}
	return false
}

func (st *State) isEntryOld(t Term) bool {
	if isLit(t, "0") {
		return true
	}
	o, ok := st.Older[t.S]
	return ok && o == 0
}

func (st *State) markOlder(t Term) {
	if _, lit := litInt(t); lit {
		return
	}
	if st.Fresh[t.S] {
		return
	}
	if _, ok := st.Older[t.S]; !ok {
		st.Older[t.S] = st.Seq
	}
}

type knownSet struct {
	parent *knownSet
	key    string
}

func (k *knownSet) has(s string) bool {
	for p := k; p != nil; p = p.parent {
		if p.key == s {
			return true
		}
	}
	return false
}

func (st *State) assume(t Term) {
	if isLit(t, "true") {
		return
	}
	if len(t.S) < 400 {
		st.Known = &knownSet{parent: st.Known, key: t.S}
	}
	if isLit(t, "false") {
		st.Dead = true
	}
	st.addCmd("(assert " + t.S + ")")
}

// define introduces a name for a (possibly large) term.
func (c *Ctx) define(st *State, prefix string, t Term) Term {
	name := prefix + "~" + strconv.Itoa(c.uniq())
	st.addCmd("(define-fun " + sym(name) + " () " + t.Sort + " " + t.S + ")")
	return Term{sym(name), t.Sort}
}

// ---------------------------------------------------------------- heap

func (c *Ctx) heapCur(st *State, name, sort string) Term {
	if cur, ok := st.Heap[name]; ok {
		return Term{cur, sort}
	}
	init := "H0!" + name
	c.Reg.DeclareConst(init, sort)
	return Term{sym(init), sort}
}

func (c *Ctx) heapInit(name, sort string) Term {
	init := "H0!" + name
	c.Reg.DeclareConst(init, sort)
	return Term{sym(init), sort}
}

func (c *Ctx) heapSet(st *State, name string, t Term) {
	d := c.define(st, "H!"+name, t)
	st.Heap[name] = d.S
	delete(st.Log, name)
}

// havocArray replaces a heap array by a fresh one.
func (c *Ctx) havocArray(st *State, name, sort string) {
	f := c.fresh(st, "Hh!"+name, sort)
	st.Heap[name] = f.S
	delete(st.Log, name)
	st.Dirty[name] = true
	for k := range st.Fwd {
		if strings.HasPrefix(k, name+"@") {
			delete(st.Fwd, k)
		}
	}
}

// field arrays: one array per scalar component, Int -> sort.
// readComp resolves the read through the chain of point writes where the
// written reference is syntactically equal to / certainly different from ref.
func (c *Ctx) readComp(st *State, name string, sort string, ref Term) Term {
	as := arrSort(SInt, sort)
	for n := st.Log[name]; n != nil; n = n.parent {
		if n.ref.S == ref.S {
			return n.val
		}
		if !st.distinct(n.ref, ref) {
			return Select(Term{n.after, as}, ref, sort)
		}
		if n.parent == nil {
			return Select(Term{n.before, as}, ref, sort)
		}
	}
	return Select(c.heapCur(st, name, as), ref, sort)
}

func (c *Ctx) writeComp(st *State, name string, sort string, ref Term, v Term) {
	if !st.Fresh[ref.S] {
		st.Dirty[name] = true
	}
	a := c.heapCur(st, name, arrSort(SInt, sort))
	prev := st.Log[name]
	d := c.define(st, "H!"+name, StoreT(a, ref, v))
	st.Heap[name] = d.S
	st.Log[name] = &logNode{parent: prev, ref: ref, val: v, after: d.S, before: a.S}
}

// element arrays: Int -> (Int -> sort)
func (c *Ctx) readElem(st *State, name string, sort string, ref, idx Term) Term {
	inner := arrSort(SInt, sort)
	return Select(c.readRow(st, name, inner, ref), idx, sort)
}

// readRow: the element row of backing object ref, resolved through the chain of
// row writes where the written reference is certainly different from ref.
func (c *Ctx) readRow(st *State, name string, inner string, ref Term) Term {
	as := arrSort(SInt, inner)
	for n := st.Log[name]; n != nil; n = n.parent {
		if n.ref.S == ref.S {
			return n.val
		}
		if !st.distinct(n.ref, ref) {
			return Select(Term{n.after, as}, ref, inner)
		}
		if n.parent == nil {
			return Select(Term{n.before, as}, ref, inner)
		}
	}
	return Select(c.heapCur(st, name, as), ref, inner)
}

// writeRow replaces the whole element row of backing object ref.
func (c *Ctx) writeRow(st *State, name string, inner string, ref Term, row Term) {
	if !st.Fresh[ref.S] {
		st.Dirty[name] = true
	}
	as := arrSort(SInt, inner)
	a := c.heapCur(st, name, as)
	prev := st.Log[name]
	d := c.define(st, "H!"+name, StoreT(a, ref, row))
	st.Heap[name] = d.S
	rd := c.define(st, "row!"+name, row)
	st.Log[name] = &logNode{parent: prev, ref: ref, val: rd, after: d.S, before: a.S}
}

func (c *Ctx) writeElem(st *State, name string, sort string, ref, idx Term, v Term) {
	if !st.Fresh[ref.S] {
		st.Dirty[name] = true
	}
	inner := arrSort(SInt, sort)
	row := c.readRow(st, name, inner, ref)
	c.writeRow(st, name, inner, ref, StoreT(row, idx, v))
}

func (c *Ctx) fwdInvalidate(st *State, prefix string, keep string, ref Term) {
	keepIdx := ""
	if h := strings.Index(keep, "#"); h >= 0 {
		keepIdx = keep[h+1:]
	}
	for k := range st.Fwd {
		if !strings.HasPrefix(k, prefix) || k == keep {
			continue
		}
		// key layout: <prefix-with-suffix>@<ref>[#idx]
		at := strings.Index(k, "@")
		if at < 0 {
			continue
		}
		if k[:at] != prefix && !strings.HasPrefix(k[:at], prefix+".") && !strings.HasPrefix(prefix, k[:at]+".") {
			continue // a different field that merely shares a name prefix
		}
		other := k[at+1:]
		otherIdx := ""
		if h := strings.Index(other, "#"); h >= 0 {
			otherIdx = other[h+1:]
			other = other[:h]
		}
		if other == ref.S && keepIdx != "" && otherIdx != "" && keepIdx != otherIdx && isIntLit(keepIdx) && isIntLit(otherIdx) {
			continue // distinct constant indices of the same array
		}
		if other != ref.S && st.Fresh[other] && st.Fresh[ref.S] {
			continue // two distinct fresh objects never alias
		}
		if other != ref.S && (st.Fresh[other] != st.Fresh[ref.S]) && (st.Fresh[other] || st.Fresh[ref.S]) {
			// a fresh object never aliases an object that existed at entry
			nf := other
			if st.Fresh[other] {
				nf = ref.S
			}
			if isEntrySymbol(nf) {
				continue
			}
		}
		delete(st.Fwd, k)
	}
}

func isIntLit(s string) bool {
	_, ok := litInt(Term{s, SInt})
	return ok
}

func isEntrySymbol(s string) bool {
	return strings.HasPrefix(s, "p!") || strings.HasPrefix(s, "|p!")
}

// loadLoc reads a value of Go type t stored at (prefix, ref[, idx]).
func (c *Ctx) loadLoc(st *State, a *Addr) Val {
	key := a.Prefix + "@" + a.Ref.S
	if a.Idx != nil {
		key += "#" + a.Idx.S
	}
	if v, ok := st.Fwd[key]; ok {
		return v
	}
	cs := comps(a.T)
	ts := make([]Term, len(cs))
	for i, cp := range cs {
		if a.Idx != nil {
			ts[i] = c.readElem(st, a.Prefix+cp.Suffix, cp.Sort, a.Ref, *a.Idx)
		} else {
			ts[i] = c.readComp(st, a.Prefix+cp.Suffix, cp.Sort, a.Ref)
		}
	}
	if len(cs) == 0 {
		return Val{K: VStruct, GoT: a.T}
	}
	v, _ := unflatten(a.T, ts)
	c.normalizeEntrySlice(st, a, &v)
	c.decorateLoaded(st, &v)
	return v
}

// normalizeEntrySlice: a slice value stored in the entry heap is identified by
// (backing reference, start); the reference is taken to denote the start, so its
// offset is 0 (assumption: slices stored in entry objects do not partially overlap).
func (c *Ctx) normalizeEntrySlice(st *State, a *Addr, v *Val) {
	if v.K != VSlice {
		return
	}
	if _, written := st.Heap[a.Prefix+"!off"]; written {
		return
	}
	v.Off = IntT(0)
}

// decorateLoaded adds the typing facts of values read from the heap.
func (c *Ctx) decorateLoaded(st *State, v *Val) {
	switch v.K {
	case VSlice:
		if isOptionSlice(v.GoT) && v.Abs == nil {
			c.Reg.DeclareFun("optseq", []string{SInt, SInt, SInt}, SInt)
			v.Abs = &OptAbs{Base: app("optseq", SInt, v.Ref, v.Off, v.Len)}
		}
		st.assume(And(Ge(v.Len, IntT(0)), Le(v.Len, v.Cap), Ge(v.Off, IntT(0)), Ge(v.Ref, IntT(0))))
		st.assume(Implies(Eq(v.Ref, IntT(0)), Eq(v.Cap, IntT(0))))
	case VStruct:
		for i := range v.Parts {
			c.decorateLoaded(st, &v.Parts[i])
		}
	case VScalar:
		if v.T.Sort == SInt {
			switch v.GoT.Underlying().(type) {
			case *types.Pointer, *types.Slice, *types.Map, *types.Chan:
				st.assume(Ge(v.T, IntT(0)))
			case *types.Basic:
				if b := v.GoT.Underlying().(*types.Basic); b.Info()&types.IsUnsigned != 0 {
					st.assume(Ge(v.T, IntT(0)))
				}
			}
		}
	}
}

func (c *Ctx) storeLoc(st *State, a *Addr, v Val) {
	cs := comps(a.T)
	if len(cs) == 0 {
		return
	}
	ts := flatten(v)
	if len(ts) != len(cs) {
		panic(fmt.Sprintf("storeLoc: %d terms for %d comps of %s (val %v)", len(ts), len(cs), a.T, v))
	}
	key := a.Prefix + "@" + a.Ref.S
	if a.Idx != nil {
		key += "#" + a.Idx.S
	}
	for i, cp := range cs {
		if a.Idx != nil {
			c.writeElem(st, a.Prefix+cp.Suffix, cp.Sort, a.Ref, *a.Idx, ts[i])
		} else {
			c.writeComp(st, a.Prefix+cp.Suffix, cp.Sort, a.Ref, ts[i])
		}
	}
	c.fwdInvalidate(st, a.Prefix, key, a.Ref)
	// sub-paths (struct fields stored as a whole) share the prefix, so
	// invalidate nested entries too, then remember the value
	st.Fwd[key] = v
}

// alloc returns a fresh non-nil reference.
func (c *Ctx) alloc(st *State) Term {
	st.AllocN++
	r := c.define(st, "ref", Add(st.AllocBase, IntT(int64(st.AllocN))))
	st.Fresh[r.S] = true
	st.Seq++
	st.FreshSeq[r.S] = st.Seq
	return r
}

// bumpAbove makes later allocations larger than r (r: reference of unknown origin).
func (c *Ctx) bumpAbove(st *State, r Term) {
	nb := c.fresh(st, "wm", SInt)
	st.assume(And(Ge(nb, Add(st.AllocBase, IntT(int64(st.AllocN)))), Ge(nb, r)))
	st.AllocBase = nb
	st.AllocN = 0
	st.Seq++
}

// ---------------------------------------------------------------- prefixes

func fieldPrefix(t types.Type, path string) string {
	return "F!" + typeName(t) + "!" + path
}

func elemPrefix(elem types.Type) string { return "E!" + typeName(elem) }
func cellPrefix(t types.Type) string    { return "C!" + typeName(t) }

const bytesArr = "BC" // Int -> String : contents of []byte objects

func (c *Ctx) bytesContent(st *State, ref Term) Term {
	c.heapInit(bytesArr, arrSort(SInt, SStr))
	c.Reg.Axiom("bcnil", "(= (select "+sym("H0!"+bytesArr)+" 0) \"\")")
	if isLit(ref, "0") {
		return StrT("")
	}
	return c.readComp(st, bytesArr, SStr, ref)
}
