package main

import (
	"fmt"
	"go/types"
	"strings"

	"golang.org/x/tools/go/ssa"
)

// Options algebra (DESIGN §4): GetOpts(base ++ [c1..ck]) = apply(ck, ... apply(c1, O(base)))
// where O(base) is an uninterpreted record per base list and each ci is a
// statically known option closure whose effect is summarised by symbolically
// executing its body (from the SSA of options.go, every run).

type optPath struct {
	Cond    Term
	Updates map[string]Val
	Err     bool
}

type optSummary struct {
	Holders [][]Term // per free variable: placeholder component terms
	HTypes  []types.Type
	Paths   []optPath
	Bad     string
}

func (x *Exec) optionsType() types.Type {
	return x.lookupNamed("nodeenrollment.Options")
}

func (x *Exec) summarize(fn *ssa.Function) *optSummary {
	if s, ok := x.optSumm[fn]; ok {
		return s
	}
	sum := &optSummary{}
	x.optSumm[fn] = sum
	sub := &Exec{Ctx: x.Ctx, Prop: x.Prop, TopFn: fn, TopKey: funcKey(fn), instCount: map[string]int{}, sites: map[*ssa.Function]map[ssa.Instruction]string{}, Mode: "summary", retCover: map[string]bool{}}
	st := sub.newState()
	ot := x.optionsType()
	if len(fn.Params) != 1 {
		sum.Bad = "unexpected option closure signature"
		return sum
	}
	o := sub.fresh(st, "sum!o", SInt)
	st.assume(Gt(o, IntT(0)))
	// initial field values: distinguished symbols so that updates can be detected
	init := map[string]string{}
	for _, f := range structFields(ot) {
		v := sub.symValue(st, "sum!init!"+f.Name(), f.Type(), false)
		a := &Addr{Prefix: fieldPrefix(ot, f.Name()), Ref: o, T: f.Type()}
		sub.registerPrefix(a.Prefix, f.Type())
		st.Fwd[a.Prefix+"@"+o.S] = v
		init[f.Name()] = v.String()
	}
	var bind []Val
	for i, fv := range fn.FreeVars {
		et := fv.Type().(*types.Pointer).Elem()
		cell := sub.fresh(st, fmt.Sprintf("sum!cell%d", i), SInt)
		st.assume(Gt(cell, IntT(0)))
		ph := sub.symValue(st, fmt.Sprintf("ph!%d", i), et, false)
		if ph.K == VSlice {
			ph.Off = sub.fresh(st, fmt.Sprintf("ph!%d!off", i), SInt)
		}
		if isStructVal(et) {
			sum.Bad = "struct-typed captured variable"
			return sum
		}
		st.Fwd[cellPrefix(et)+"@"+cell.S] = ph
		sub.registerPrefix(cellPrefix(et), et)
		sum.Holders = append(sum.Holders, flatten(ph))
		sum.HTypes = append(sum.HTypes, et)
		bind = append(bind, scalar(cell, fv.Type()))
	}
	sub.pushFrame(st, fn, []Val{scalar(o, fn.Params[0].Type())}, bind, nil, "", 0)
	sub.SummaryEnd = func(end *State, res []Val) {
		p := optPath{Cond: And(end.Branch...), Updates: map[string]Val{}}
		if len(res) == 1 && !isLit(res[0].T, "0") {
			p.Err = true
		}
		for _, f := range structFields(ot) {
			v := sub.loadAddrPure(end, &Addr{Prefix: fieldPrefix(ot, f.Name()), Ref: o, T: f.Type()})
			if v.String() != init[f.Name()] {
				p.Updates[f.Name()] = v
			}
		}
		sum.Paths = append(sum.Paths, p)
	}
	sub.run(st)
	if len(sub.Errors) > 0 {
		sum.Bad = strings.Join(sub.Errors, "; ")
	}
	return sum
}

func structFields(t types.Type) []*types.Var {
	s := t.Underlying().(*types.Struct)
	var out []*types.Var
	for i := 0; i < s.NumFields(); i++ {
		out = append(out, s.Field(i))
	}
	return out
}

func letWrap(t Term, holders []Term, actual []Term) Term {
	if len(holders) == 0 {
		return t
	}
	used := false
	var b strings.Builder
	b.WriteString("(let (")
	for i, h := range holders {
		if _, lit := litInt(h); lit || isStrLit(h) || strings.HasPrefix(h.S, "(") || h.S == "true" || h.S == "false" {
			continue
		}
		if strings.Contains(t.S, h.S) {
			used = true
		}
		fmt.Fprintf(&b, "(%s %s)", h.S, actual[i].S)
	}
	if !used {
		return t
	}
	b.WriteString(") " + t.S + ")")
	return Term{b.String(), t.Sort}
}

func mapVal(v Val, f func(Term) Term) Val {
	switch v.K {
	case VSlice:
		v.Ref, v.Off, v.Len, v.Cap = f(v.Ref), f(v.Off), f(v.Len), f(v.Cap)
	case VStruct, VTuple:
		ps := make([]Val, len(v.Parts))
		for i, p := range v.Parts {
			ps[i] = mapVal(p, f)
		}
		v.Parts = ps
	default:
		v.T = f(v.T)
	}
	return v
}

func iteVal(c Term, a, b Val) Val {
	switch a.K {
	case VSlice:
		r := a
		r.Ref, r.Off, r.Len, r.Cap = Ite(c, a.Ref, b.Ref), Ite(c, a.Off, b.Off), Ite(c, a.Len, b.Len), Ite(c, a.Cap, b.Cap)
		if isLit(c, "true") {
			return a
		}
		r.Abs = nil
		return r
	case VStruct, VTuple:
		r := a
		r.Parts = make([]Val, len(a.Parts))
		for i := range a.Parts {
			r.Parts[i] = iteVal(c, a.Parts[i], b.Parts[i])
		}
		return r
	}
	if isLit(c, "true") {
		return a
	}
	if isLit(c, "false") {
		return b
	}
	r := a
	r.T = Ite(c, a.T, b.T)
	r.Fn, r.Bind, r.Dyn, r.Payload = nil, nil, nil, nil
	return r
}

// optRecord computes the Options record denoted by an abstract option list.
func (x *Exec) optRecord(st *State, abs *OptAbs) (map[string]Val, Term) {
	ot := x.optionsType()
	base := IntT(0)
	if abs != nil {
		base = abs.Base
	}
	fields := map[string]Val{}
	for _, f := range structFields(ot) {
		cs := comps(f.Type())
		ts := make([]Term, len(cs))
		for i, cp := range cs {
			fn := "optF!" + f.Name() + cp.Suffix
			x.Reg.DeclareFun(fn, []string{SInt}, cp.Sort)
			ts[i] = app(sym(fn), cp.Sort, base)
		}
		v, _ := unflatten(f.Type(), ts)
		fields[f.Name()] = v
	}
	x.Reg.DeclareFun("optErr", []string{SInt}, SBool)
	x.optDefaults(ot)
	errFlag := app("optErr", SBool, base)
	if isLit(base, "0") {
		errFlag = BoolT(false)
	}
	if abs == nil {
		return fields, errFlag
	}
	for _, ap := range abs.Apps {
		sum := x.summarize(ap.Fn)
		if sum.Bad != "" || len(sum.Holders) != len(ap.Bind) {
			x.note(x.Outside, "option closure "+funcKey(ap.Fn)+" could not be summarised: "+sum.Bad)
			// unknown effect: everything arbitrary afterwards
			nb := x.fresh(st, "optunk", SInt)
			return x.optRecord(st, &OptAbs{Base: nb})
		}
		var hs, as []Term
		for i, h := range sum.Holders {
			cellRef := ap.Bind[i]
			actual := x.loadAddrPure(st, &Addr{Prefix: cellPrefix(sum.HTypes[i]), Ref: cellRef.T, T: sum.HTypes[i]})
			hs = append(hs, h...)
			as = append(as, flatten(actual)...)
		}
		sub := func(t Term) Term { return letWrap(t, hs, as) }
		// an earlier error stops GetOpts; model: later options only matter when no error so far
		newFields := map[string]Val{}
		for k, v := range fields {
			newFields[k] = v
		}
		pathErr := BoolT(false)
		for _, p := range sum.Paths {
			cond := sub(p.Cond)
			if p.Err {
				pathErr = Or(pathErr, cond)
				continue
			}
			for fname, uv := range p.Updates {
				nv := mapVal(uv, sub)
				newFields[fname] = iteVal(cond, nv, newFields[fname])
			}
		}
		fields = newFields
		errFlag = Or(errFlag, pathErr)
	}
	return fields, errFlag
}

var optDefaultsDone = false

// optDefaults: the record of the empty option list is getDefaultOptions().
func (x *Exec) optDefaults(ot types.Type) {
	if optDefaultsDone {
		return
	}
	optDefaultsDone = true
	fn := x.Prog.Funcs["nodeenrollment.getDefaultOptions"]
	if fn == nil {
		return
	}
	sub := &Exec{Ctx: x.Ctx, Prop: x.Prop, TopFn: fn, TopKey: funcKey(fn), instCount: map[string]int{}, sites: map[*ssa.Function]map[ssa.Instruction]string{}, Mode: "summary", retCover: map[string]bool{}}
	st := sub.newState()
	sub.pushFrame(st, fn, nil, nil, nil, "", 0)
	sub.SummaryEnd = func(end *State, res []Val) {
		if len(res) != 1 {
			return
		}
		for _, f := range structFields(ot) {
			v := sub.loadAddrPure(end, &Addr{Prefix: fieldPrefix(ot, f.Name()), Ref: res[0].T, T: f.Type()})
			cs := comps(f.Type())
			for i, t := range flatten(v) {
				_, isInt := litInt(t)
				if isInt || isStrLit(t) || isLit(t, "true") || isLit(t, "false") {
					fnn := "optF!" + f.Name() + cs[i].Suffix
					x.Reg.DeclareFun(fnn, []string{SInt}, cs[i].Sort)
					x.Reg.Axiom("optdef:"+fnn, "(= ("+sym(fnn)+" 0) "+t.S+")")
				}
			}
		}
	}
	sub.run(st)
}

// GetOpts intrinsic.
func getOptsIntrinsic(x *Exec, st *State, c *CallCtx) []Outcome {
	ot := x.optionsType()
	arg := c.Args[0]
	abs := arg.Abs
	if abs == nil || abs.Unknown {
		abs = &OptAbs{Base: x.fresh(st, "optbase", SInt)}
	}
	fields, errFlag := x.optRecord(st, abs)
	pt := types.NewPointer(ot)
	var outs []Outcome
	if !isLit(errFlag, "false") {
		bad := st.clone()
		bad.assume(errFlag)
		e := x.newErr(bad, "getopts")
		outs = append(outs, Outcome{St: bad, Res: []Val{scalar(IntT(0), pt), e}})
	}
	st.assume(Not(errFlag))
	o := x.alloc(st)
	for _, f := range structFields(ot) {
		a := &Addr{Prefix: fieldPrefix(ot, f.Name()), Ref: o, T: f.Type()}
		x.registerPrefix(a.Prefix, f.Type())
		v := fields[f.Name()]
		x.decorateOptField(st, &v)
		x.storeLoc(st, a, v)
	}
	outs = append([]Outcome{{St: st, Res: []Val{scalar(o, pt), nilErr()}}}, outs...)
	return outs
}

func (x *Exec) decorateOptField(st *State, v *Val) {
	switch v.K {
	case VSlice:
		st.assume(And(Ge(v.Len, IntT(0)), Le(v.Len, v.Cap), Ge(v.Ref, IntT(0))))
		st.assume(Implies(Eq(v.Ref, IntT(0)), Eq(v.Cap, IntT(0))))
	case VScalar:
		if v.T.Sort == SInt {
			switch v.GoT.Underlying().(type) {
			case *types.Pointer, *types.Slice:
				st.assume(Ge(v.T, IntT(0)))
			}
		}
	case VIface, VFunc:
		st.assume(Ge(v.T, IntT(0)))
	}
}

func init() {
	intrinsics["nodeenrollment.GetOpts"] = getOptsIntrinsic
}

// opts(opt).Field in contract expressions
func (x *Exec) evalOptsField(c *evalCtx, call ECall, field string) (Val, error) {
	a, err := x.evalArgs(c, call.Args)
	if err != nil {
		return Val{}, err
	}
	if len(a) != 1 || a[0].K != VSlice {
		return Val{}, fmt.Errorf("opts(optionSlice)")
	}
	abs := a[0].Abs
	if abs == nil || abs.Unknown {
		return Val{}, fmt.Errorf("opts(): option list value not tracked")
	}
	fields, errFlag := x.optRecord(c.state(), abs)
	if field == "Err" {
		return boolV(errFlag), nil
	}
	v, ok := fields[field]
	if !ok {
		return Val{}, fmt.Errorf("no option field %s", field)
	}
	return v, nil
}
