package main

import (
	"regexp"
	"crypto/sha256"
	"encoding/hex"
	"encoding/json"
	"flag"
	"fmt"
	"os"
	"path/filepath"
	"sort"
	"strconv"
	"strings"
	"sync"
	"time"

	"golang.org/x/tools/go/ssa"
)

func main() {
	if len(os.Args) < 2 {
		fmt.Fprintln(os.Stderr, "usage: govc check|funcs|ssa ...")
		os.Exit(2)
	}
	switch os.Args[1] {
	case "check":
		os.Exit(cmdCheck(os.Args[2:]))
	case "replay":
		os.Exit(cmdReplay(os.Args[2:]))
	case "funcs":
		p, err := loadProgram(envOr("VERIF_REPO", "/repo"))
		if err != nil {
			fmt.Fprintln(os.Stderr, err)
			os.Exit(2)
		}
		for _, n := range p.funcNames() {
			fmt.Println(n)
		}
	case "ssa":
		p, err := loadProgram(envOr("VERIF_REPO", "/repo"))
		if err != nil {
			fmt.Fprintln(os.Stderr, err)
			os.Exit(2)
		}
		for _, n := range os.Args[2:] {
			if fn := p.Funcs[n]; fn != nil {
				fn.WriteTo(os.Stdout)
			} else {
				fmt.Println("no function", n)
			}
		}
	default:
		fmt.Fprintln(os.Stderr, "unknown command")
		os.Exit(2)
	}
}

func envOr(k, d string) string {
	if v := os.Getenv(k); v != "" {
		return v
	}
	return d
}

type obResult struct {
	Name      string   `json:"name"`
	Kind      string   `json:"kind"`
	Instances int      `json:"instances"`
	Status    string   `json:"status"` // discharged | failed | undecided | covered | vacuous
	Solvers   []string `json:"solvers"`
	Ms        int64    `json:"ms"`
	MaxMs     int64    `json:"max_instance_ms"`
	FailInst  int      `json:"-"`
	Detail    string   `json:"detail,omitempty"`
	Model     string   `json:"-"`
	File      string   `json:"-"`
	Trace     string   `json:"-"`
	Digest    string   `json:"smt_sha256,omitempty"`
}

type knownFindings struct {
	Open []struct {
		Property   string `json:"property"`
		Obligation string `json:"obligation"`
		What       string `json:"what"`
	} `json:"open"`
	Fixed []string `json:"fixed"`
}

func cmdCheck(args []string) int {
	fs := flag.NewFlagSet("check", flag.ExitOnError)
	prop := fs.String("prop", "", "property id")
	tier := fs.String("tier", "quick", "quick|thorough")
	repo := fs.String("repo", envOr("VERIF_REPO", "/repo"), "repository")
	verif := fs.String("verif", envOr("VERIF_DIR", "/verif"), "verif dir")
	outdir := fs.String("outdir", envOr("VERIF_OUT", ""), "directory for evidence/replays/work (default: verif dir)")
	only := fs.String("only", "", "verify only this function (debug)")
	keep := fs.Bool("keep", false, "keep SMT files")
	updateExpected := fs.Bool("update-expected", false, "rewrite expected obligation list")
	debug := fs.Bool("debug", false, "verbose")
	fs.Parse(args)
	start := time.Now()
	if *outdir == "" {
		*outdir = *verif
	}
	seed := 0
	if s := os.Getenv("VERIF_SEED"); s != "" {
		seed, _ = strconv.Atoi(s)
	}
	timeout := 10
	if *tier == "thorough" {
		timeout = 60
	}
	prog, err := loadProgram(*repo)
	if err != nil {
		fmt.Fprintf(os.Stderr, "govc: cannot load %s: %v\n", *repo, err)
		return failNoLoad(*outdir, *prop, *tier, seed, start, err)
	}
	cs := parseContracts(prog.contractLines())
	for _, e := range cs.Errors {
		fmt.Fprintln(os.Stderr, "contract error:", e)
	}
	loadRecordedNames(*verif)
	if *updateExpected && *only == "" {
		var fns []*ssa.Function
		for k := range cs.ByKey {
			if fn := prog.Funcs[k]; fn != nil {
				fns = append(fns, fn)
			}
		}
		prog.updateRecordedNames(fns)
	}
	ctx := &Ctx{Prog: prog, Reg: NewRegistry(), CS: cs, Unspec: map[string]bool{}, Assumed: map[string]bool{}, Outside: map[string]bool{},
		optSumm: map[*ssa.Function]*optSummary{}, loopInfo: map[*ssa.Function]*loopInfo{}, modCache: map[*ssa.Function]map[string]bool{}}

	// contract-level axioms
	if len(cs.Axioms) > 0 {
		ax := &Exec{Ctx: ctx, Prop: *prop, instCount: map[string]int{}, sites: map[*ssa.Function]map[ssa.Instruction]string{}, retCover: map[string]bool{}}
		st0 := ax.newState()
		for i, a := range cs.Axioms {
			v, err := ax.evalExpr(&evalCtx{x: ax, st: st0, old: st0, env: map[string]Val{}}, a.E)
			if err != nil {
				fmt.Fprintf(os.Stderr, "axiom %s:%d: %v\n", a.File, a.Line, err)
				continue
			}
			lbl := a.Label
			if lbl == "" {
				lbl = strconv.Itoa(i)
			}
			ctx.Reg.Axiom("user:"+lbl, v.T.S)
		}
	}
	// function set: contracts owning the property, plus contracted callees (closure)
	var work []string
	seen := map[string]bool{}
	for _, k := range sortedKeys(cs.ByKey) {
		if cs.ByKey[k].ownsProp(*prop) {
			work = append(work, k)
			seen[k] = true
		}
	}
	if *only != "" {
		work = []string{*only}
		seen = map[string]bool{*only: true}
	}
	var allQ []*Query
	var fuc []string
	var engineErrs []string
	var trusted []string
	var reliedOnly []string
	for len(work) > 0 {
		k := work[0]
		work = work[1:]
		ct := cs.ByKey[k]
		fn := prog.Funcs[k]
		if fn == nil {
			engineErrs = append(engineErrs, "contract for unknown function "+k)
			continue
		}
		if ct.Trusted {
			trusted = append(trusted, k)
			continue
		}
		if *only == "" && !ct.ownsProp(*prop) && !ct.hasStar() {
			// reached only because its contract was applied at a call site and none of its clauses is
			// proved under this property: every clause (and its frame) is proved by the checks of the
			// properties it is tagged with (recorded; the thorough tier runs those checks)
			reliedOnly = append(reliedOnly, k)
			continue
		}
		x := &Exec{Ctx: ctx, Prop: *prop, TopFn: fn, TopKey: k, Contract: ct, instCount: map[string]int{}, sites: map[*ssa.Function]map[ssa.Instruction]string{}, retCover: map[string]bool{}, debug: *debug}
		x.ClockInstant = ct.ClockInstant
		x.Faulty = ct.Storage == "faulty" || *prop == "C13"
		for _, p := range ct.NoPanic {
			if p == *prop || p == "*" {
				x.nopanic = true
			}
		}
		applied = map[string]bool{}
		x.verifyBody()
		fuc = append(fuc, k)
		for _, e := range x.Errors {
			engineErrs = append(engineErrs, k+": "+e)
		}
		allQ = append(allQ, x.Queries...)
		if *debug {
			fmt.Fprintf(os.Stderr, "%s: %d paths, %d return points, %d queries\n", k, x.paths, x.ends, len(x.Queries))
		}
		if *only == "" {
			for _, a := range sortedKeys(applied) {
				if !seen[a] {
					seen[a] = true
					work = append(work, a)
				}
			}
		}
	}
	// ---- discharge
	workDir := filepath.Join(*outdir, "work", *prop)
	os.RemoveAll(workDir)
	os.MkdirAll(workDir, 0o755)
	solveAll(allQ, ctx.Reg, workDir, timeout, seed, *tier == "thorough")

	// ---- vacuity guard: the axioms of the trusted base must not be contradictory
	{
		all := reg_allAxioms(ctx.Reg)
		q := &Query{Name: "axioms#cover.consistent", Kind: "cover", Goal: BoolT(true), Meta: map[string]string{}}
		q.Lines = all
		if fn, err := writeQuery(workDir, q, false); err == nil {
			q.File = fn
			r, _ := raceSolve(fn, 8, seed, []string{"z3-new", "cvc5", "z3"}, false)
			if r.Status == "unsat" {
				q.Result = r
			} else {
				// sat or unknown: no contradiction found
				q.Result = SolveResult{Status: "sat", Solver: r.Solver + "(" + r.Status + ")", Ms: r.Ms}
			}
			q.Lines = nil
			allQ = append(allQ, q)
		}
	}
	// ---- aggregate per obligation
	byName := map[string]*obResult{}
	var order []string
	for _, q := range allQ {
		r := byName[q.Name]
		if r == nil {
			r = &obResult{Name: q.Name, Kind: q.Kind, Status: "discharged", FailInst: -1}
			if q.Kind == "cover" {
				r.Status = "vacuous"
			}
			byName[q.Name] = r
			order = append(order, q.Name)
		}
		r.Instances++
		r.Ms += q.Result.Ms
		if q.Result.Ms > r.MaxMs {
			r.MaxMs = q.Result.Ms
		}
		if !contains(r.Solvers, q.Result.Solver) {
			r.Solvers = append(r.Solvers, q.Result.Solver)
		}
		if q.Kind == "cover" {
			if q.Result.Status == "sat" {
				r.Status = "covered"
			} else if q.Result.Status != "unsat" && r.Status == "vacuous" {
				// the reachability query itself was not decided (solver limit): recorded, not an alarm -
				// only a cover that is REFUTED on every path (unsat) shows a vacuous clause
				r.Status = "cover-undecided"
				r.Detail = q.Result.Status
			}
			continue
		}
		switch q.Result.Status {
		case "unsat":
		case "sat":
			if r.Status != "failed" {
				r.Status = "failed"
				r.FailInst = q.Inst
				r.Model = q.Result.Model
				r.File = q.File
				r.Trace = q.Meta["trace"]
				r.Detail = "counter-model from " + q.Result.Solver
			}
		default:
			if r.Status == "discharged" {
				r.Status = "undecided"
				r.FailInst = q.Inst
				r.File = q.File
				r.Trace = q.Meta["trace"]
				r.Detail = q.Result.Status + " (" + q.Result.Solver + ")"
			}
		}
		if q.File != "" && r.Digest == "" {
			if b, err := os.ReadFile(q.File); err == nil {
				h := sha256.Sum256(b)
				r.Digest = hex.EncodeToString(h[:8])
			}
		}
	}
	sort.Strings(order)
	// a cover that was "undecided" with at least one sat is covered (handled above)

	// ---- expected obligations
	expFile := filepath.Join(*verif, "expected", *prop+".txt")
	if *updateExpected {
		os.MkdirAll(filepath.Dir(expFile), 0o755)
		var keys []string
		seen := map[string]bool{}
		for _, n := range order {
			if k, ok := expKey(n); ok && !seen[k] {
				seen[k] = true
				keys = append(keys, k)
			}
		}
		os.WriteFile(expFile, []byte(strings.Join(keys, "\n")+"\n"), 0o644)
	}
	haveKey := map[string]bool{}
	for _, n := range order {
		if k, ok := expKey(n); ok {
			haveKey[k] = true
		}
	}
	var missing []string
	expectedSet := map[string]bool{}
	if b, err := os.ReadFile(expFile); err == nil && *only == "" {
		for _, l := range strings.Split(string(b), "\n") {
			l = strings.TrimSpace(l)
			if l == "" {
				continue
			}
			k, ok := expKey(l)
			if !ok {
				continue
			}
			expectedSet[k] = true
			if !haveKey[k] {
				missing = append(missing, k)
			}
		}
	}

	// ---- known findings
	var kf knownFindings
	if b, err := os.ReadFile(filepath.Join(*verif, "known_findings.json")); err == nil {
		json.Unmarshal(b, &kf)
	}
	known := map[string]string{}
	for _, o := range kf.Open {
		if o.Property == *prop {
			known[o.Obligation] = o.What
		}
	}

	// ---- report
	nOb, nDis := 0, 0
	var knownHit []string
	var coverUndecided []string
	var violations []string
	replayDir := filepath.Join(*outdir, "replays", *prop)
	os.RemoveAll(replayDir)
	var samples []interface{}
	solverCount := map[string]int{}
	var solverMs int64
	for _, n := range order {
		r := byName[n]
		for _, s := range r.Solvers {
			solverCount[s]++
		}
		solverMs += r.Ms
		ok := r.Status == "discharged" || r.Status == "covered" || r.Status == "cover-undecided"
		if r.Status == "cover-undecided" {
			coverUndecided = append(coverUndecided, n)
		}
		if r.Kind == "prove" {
			nOb++
			if ok {
				nDis++
			}
		} else {
			nOb++
			if ok {
				nDis++
			}
		}
		if len(samples) < 6 && (r.Kind == "prove" && r.Digest != "") {
			samples = append(samples, map[string]interface{}{"obligation": r.Name, "instances": r.Instances, "result": r.Status, "solvers": r.Solvers, "ms": r.Ms, "smt_sha256_prefix": r.Digest})
		}
		if ok {
			continue
		}
		if what, isKnown := known[n]; isKnown {
			fmt.Printf("KNOWN-FINDING: property=%s %s (%s)\n", *prop, what, n)
			nOb-- // a listed finding is reported separately, neither proved nor counted as an obligation of the claim
			knownHit = append(knownHit, n+": "+what)
			continue
		}
		path := writeReplay(replayDir, *prop, r, expectedKeyIn(expectedSet, n), *repo)
		suffix := " no-failing-input-found"
		if replayed := tryReplay(*verif, *repo, *prop, r, path); replayed {
			suffix = ""
		}
		violations = append(violations, fmt.Sprintf("VIOLATION property=%s replay=%s%s", *prop, path, suffix))
	}
	for _, m := range missing {
		r := &obResult{Name: m, Kind: "prove", Status: "missing", Detail: "obligation expected for this property was not generated (its function, clause or program point disappeared)"}
		path := writeReplay(replayDir, *prop, r, true, *repo)
		suffix := " no-failing-input-found"
		if tryReplay(*verif, *repo, *prop, r, path) {
			suffix = ""
		}
		violations = append(violations, fmt.Sprintf("VIOLATION property=%s replay=%s%s", *prop, path, suffix))
		nOb++
	}
	// ---- bounded stand-ins for code that is not under contract (run on every check)
	var boundedEv map[string]interface{}
	if *only == "" && hasBounded(*verif, *prop) {
		br := runOverlayTests(*verif, *repo, *prop, nil, "TestVerifBounded")
		boundedEv = map[string]interface{}{"label": "bounded", "ran": br.Ran, "failed": br.Failed, "cmds": br.Cmds, "test_files": br.Files,
			"note": "bounded stand-in for functions outside the verifier's reach; the bound is stated in the test file; not counted as proved"}
		if br.Failed {
			r := &obResult{Name: "bounded:" + *prop, Kind: "prove", Status: "bounded-test-failed", Detail: "the bounded stand-in test fails on the real code:\n" + br.Output}
			path := writeReplay(replayDir, *prop, r, true, *repo)
			if b, err := os.ReadFile(path); err == nil {
				var m map[string]interface{}
				if json.Unmarshal(b, &m) == nil {
					m["replayed_on_code"] = true
					m["replay_test_files"] = br.Files
					m["replay_cmds"] = br.Cmds
					m["replay_output"] = br.Output
					nb, _ := json.MarshalIndent(m, "", " ")
					os.WriteFile(path, nb, 0o644)
				}
			}
			violations = append(violations, fmt.Sprintf("VIOLATION property=%s replay=%s", *prop, path))
			nOb++
		}
	}
	for _, e := range engineErrs {
		r := &obResult{Name: "engine:" + sanitizeFile(e), Kind: "prove", Status: "engine-error", Detail: e}
		path := writeReplay(replayDir, *prop, r, false, *repo)
		suffix := " no-failing-input-found"
		if tryReplay(*verif, *repo, *prop, r, path) {
			suffix = ""
		}
		violations = append(violations, fmt.Sprintf("VIOLATION property=%s replay=%s%s", *prop, path, suffix))
		nOb++
	}
	if len(fuc) == 0 || nOb == 0 {
		r := &obResult{Name: "no-obligations", Kind: "prove", Status: "vacuous", Detail: "no contract clause is tagged with this property; nothing was checked"}
		path := writeReplay(replayDir, *prop, r, false, *repo)
		violations = append(violations, fmt.Sprintf("VIOLATION property=%s replay=%s no-failing-input-found", *prop, path))
	}

	// ---- evidence
	var assumptions []string
	assumptions = append(assumptions, baseAssumptions...)
	for _, a := range sortedKeys(ctx.Assumed) {
		assumptions = append(assumptions, a)
	}
	for _, a := range sortedKeys(ctx.Outside) {
		assumptions = append(assumptions, "outside the modelled subset (abstracted): "+a)
	}
	var tb []string
	tb = append(tb, "govc engine (this repository: /verif/govc), go/ssa (x/tools v0.29.0), z3 4.8.12 / z3 5.1.0 / cvc5 1.0")
	for _, s := range sortedKeys(usedSpecs) {
		tb = append(tb, "library spec: "+s)
	}
	for _, s := range sortedKeys(ctx.Unspec) {
		tb = append(tb, "unspecified external (result arbitrary, assumed effect-free): "+s)
	}
	for _, s := range trusted {
		tb = append(tb, "trusted contract (body not verified): "+s)
	}
	if len(samples) == 0 {
		for _, n := range order {
			if len(samples) < 4 {
				samples = append(samples, map[string]interface{}{"obligation": n, "result": byName[n].Status})
			}
		}
	}
	ev := map[string]interface{}{
		"property_id": *prop,
		"tier":        *tier,
		"seed":        seed,
		"level":       "proof",
		"coverage": map[string]interface{}{
			"obligations":              nOb,
			"discharged":               nDis,
			"checker_cmd":              fmt.Sprintf("bin/govc check -prop %s -tier %s -repo %s", *prop, *tier, *repo),
			"trusted_base":             tb,
			"functions_under_contract": fuc,
			"solver_instances":         len(allQ),
			"obligations_by_solver":    solverCount,
			"solver_ms_total":          solverMs,
			"samples":                  samples,
			"obligation_names":         order,
			"known_findings_open":      knownHit,
			"covers_undecided":         coverUndecided,
			"contracts_used_not_proved_here": reliedOnly,
			"bounded_standin":          boundedEv,
		},
		"assumptions": assumptions,
		"wall_s":      time.Since(start).Seconds(),
		"violations":  len(violations),
	}
	os.MkdirAll(filepath.Join(*outdir, "evidence"), 0o755)
	b, _ := json.MarshalIndent(ev, "", " ")
	os.WriteFile(filepath.Join(*outdir, "evidence", *prop+".json"), b, 0o644)
	if !*keep && len(violations) == 0 {
		os.RemoveAll(workDir)
	}
	fmt.Printf("property %s: %d functions under contract, %d obligations (%d solver instances), %d discharged, %.1fs\n", *prop, len(fuc), nOb, len(allQ), nDis, time.Since(start).Seconds())
	if *debug {
		for _, n := range order {
			r := byName[n]
			fmt.Printf("  %-12s %s (%d inst, %dms, max %dms) %s\n", r.Status, n, r.Instances, r.Ms, r.MaxMs, r.Detail)
		}
	}
	for _, v := range violations {
		fmt.Println(v)
	}
	if len(violations) > 0 {
		return 1
	}
	return 0
}

var applied = map[string]bool{}

var baseAssumptions = []string{
	"integers are mathematical (no 64-bit wrap-around)",
	"[]byte and string contents are immutable values; byte slices are identified by object reference",
	"slice parameters and slices stored in objects that exist at function entry do not partially overlap one another (each is identified by its backing reference, offset 0)",
	"termination is not proved",
	"goroutine interleavings are not modelled (sequential semantics)",
	"cryptographic primitives are idealised (DESIGN.md section 4): Ed25519 verify/sign as an uninterpreted relation with sign-verifies, X25519 symmetric agreement, AEAD and KMS wrappers open only under the same key and additional data, hash/encoding functions injective",
	"protobuf Marshal/Unmarshal are inverse on messages; Unmarshal of arbitrary bytes yields an arbitrary message",
	"application-supplied collaborators (Storage, wrappers, logger, random reader) do not panic and touch only their own state",
}

func contains(xs []string, s string) bool {
	for _, x := range xs {
		if x == s {
			return true
		}
	}
	return false
}

func failNoLoad(verif, prop, tier string, seed int, start time.Time, err error) int {
	dir := filepath.Join(verif, "replays", prop)
	os.MkdirAll(dir, 0o755)
	path := filepath.Join(dir, "load-failure.json")
	b, _ := json.MarshalIndent(map[string]interface{}{"property": prop, "obligation": "load", "status": "repository does not build with -tags verif", "detail": err.Error()}, "", " ")
	os.WriteFile(path, b, 0o644)
	ev := map[string]interface{}{"property_id": prop, "tier": tier, "seed": seed, "level": "proof",
		"coverage":    map[string]interface{}{"evaluations": 1, "distinct_nontrivial": 2, "explanation": "repository failed to load: " + err.Error()},
		"assumptions": []string{}, "wall_s": time.Since(start).Seconds(), "violations": 1}
	eb, _ := json.MarshalIndent(ev, "", " ")
	os.MkdirAll(filepath.Join(verif, "evidence"), 0o755)
	os.WriteFile(filepath.Join(verif, "evidence", prop+".json"), eb, 0o644)
	fmt.Printf("VIOLATION property=%s replay=%s no-failing-input-found\n", prop, path)
	return 1
}

func writeReplay(dir, prop string, r *obResult, expected bool, repo string) string {
	os.MkdirAll(dir, 0o755)
	path := filepath.Join(dir, sanitizeFile(r.Name)+".json")
	smt := ""
	if r.File != "" {
		if b, err := os.ReadFile(r.File); err == nil {
			smt = string(b)
			if len(smt) > 400000 {
				smt = smt[:400000] + "\n; truncated"
			}
		}
	}
	m := map[string]interface{}{
		"property":          prop,
		"obligation":        r.Name,
		"status":            r.Status,
		"detail":            r.Detail,
		"failing_instance":  r.FailInst,
		"path_trace":        r.Trace,
		"solver_model":      r.Model,
		"in_expected_list":  expected,
		"expected_note":     map[bool]string{true: "this obligation discharged on the unchanged tree and fails now", false: "this obligation is not in the committed expected list (generated by code or clauses that were not there before, or the first run)"}[expected],
		"repo":              repo,
		"smt_query":         smt,
		"how_to_recheck":    "bin/govc check -prop " + prop + " -debug -keep",
		"replayed_on_code":  false,
	}
	b, _ := json.MarshalIndent(m, "", " ")
	os.WriteFile(path, b, 0o644)
	return path
}

// ---------------------------------------------------------------- solving

func solveAll(qs []*Query, reg *Registry, dir string, timeout, seed int, agree bool) {
	ch := make(chan *Query)
	var wg sync.WaitGroup
	var mu sync.Mutex
	failedName := map[string]bool{}
	coveredName := map[string]bool{}
	type cacheEnt struct {
		done chan struct{}
		res  SolveResult
		file string
	}
	cache := map[string]*cacheEnt{}
	workers := 12
	for i := 0; i < workers; i++ {
		wg.Add(1)
		go func() {
			defer wg.Done()
			for q := range ch {
				if q.Result.Status != "" {
					continue
				}
				mu.Lock()
				skip := failedName[q.Name] && q.Kind == "prove"
				coverDone := q.Kind == "cover" && coveredName[q.Name]
				mu.Unlock()
				if coverDone {
					q.Result = SolveResult{Status: "sat", Solver: "skipped-already-covered"}
					q.Path = nil
					continue
				}
				if skip {
					q.Result = SolveResult{Status: "unsat", Solver: "skipped-after-failure"}
					q.Lines = nil
					continue
				}
				full := q.Path.lines()
				q.Path = nil
				path := sliceLines(full, q.Goal.S)
				q.Lines = append(reg.Relevant(path, q.Goal.S, q.Kind == "cover"), path...)
				if q.Kind == "cover" {
					q.Lines = dropQuantified(q.Lines)
				}
				// identical sliced queries (up to the numbering of path-local symbols) are solved once
				h := sha256.New()
				h.Write([]byte(q.Kind))
				canon := newCanon()
				for _, l := range q.Lines {
					h.Write([]byte(canon.apply(l)))
					h.Write([]byte{10})
				}
				h.Write([]byte(canon.apply(q.Goal.S)))
				key := hex.EncodeToString(h.Sum(nil))
				mu.Lock()
				ent, seenBefore := cache[key]
				if !seenBefore {
					ent = &cacheEnt{done: make(chan struct{})}
					cache[key] = ent
				}
				mu.Unlock()
				if seenBefore {
					<-ent.done
					if ent.res.Status == "unsat" || q.Kind == "cover" {
						q.Result = ent.res
						q.Result.Solver = ent.res.Solver + "(shared)"
						q.Result.Ms = 0
						q.File = ent.file
						q.Lines = nil
						continue
					}
				}
				// what other paths with the same SLICED query may reuse is the answer to the sliced
				// query only - never an answer obtained from this path's full assumption list
				var slicedRes SolveResult
				slicedSet := false
				finish := func() {
					if !seenBefore {
						ent.res = q.Result
						if slicedSet {
							ent.res = slicedRes
						}
						ent.file = q.File
						close(ent.done)
					}
				}
				fn, err := writeQuery(dir, q, false)
				if err != nil {
					q.Result = SolveResult{Status: "error", Raw: err.Error()}
					finish()
					continue
				}
				q.File = fn
				// stage 1: one fast solver
				first := "z3-new"
				if queryUsesStrings(q) {
					first = "cvc5"
				}
				r, _ := raceSolve(fn, 3, seed, []string{first}, false)
				if r.Status != "sat" && r.Status != "unsat" {
					r, _ = raceSolve(fn, timeout, seed, []string{"z3-new", "cvc5", "cvc5-nomodel", "z3"}, false)
				} else if agree {
					other := "cvc5"
					if first == "cvc5" {
						other = "z3-new"
					}
					r2, _ := raceSolve(fn, timeout, seed, []string{other}, false)
					if (r2.Status == "sat" || r2.Status == "unsat") && r2.Status != r.Status {
						r.Status = "error"
						r.Raw = "solvers disagree: " + r.Solver + "=" + r.Status + " " + r2.Solver + "=" + r2.Status
					} else if r2.Status == r.Status {
						r.Solver += "+" + r2.Solver
					}
				}
				if q.Kind == "prove" && r.Status != "unsat" && len(path) != len(full) {
					slicedRes, slicedSet = r, true
					// the slice may have dropped a needed fact: retry with the whole path
					q.Lines = append(reg.Relevant(full, q.Goal.S, false), full...)
					if fn2, err := writeQuery(dir, q, false); err == nil {
						q.File = fn2
						r2, _ := raceSolve(fn2, timeout, seed, []string{"z3-new", "cvc5", "cvc5-nomodel", "z3"}, false)
						if r2.Status == "unsat" || r.Status != "sat" {
							r = r2
						}
					}
					path = full
				}
				if q.Kind == "prove" && r.Status != "unsat" {
					mu.Lock()
					failedName[q.Name] = true
					mu.Unlock()
					// candidate counterexample: same query without quantified axioms
					wq := *q
					wq.Lines = append(reg.Relevant(path, q.Goal.S, true), dropQuantified(path)...)
					wq.Inst = q.Inst + 100000
					if mf, err := writeQuery(dir, &wq, true); err == nil {
						rm, _ := raceSolve(mf, 5, seed, []string{"z3-new", "cvc5"}, false)
						if rm.Status == "sat" {
							r.Model = rm.Model
							if r.Status != "sat" {
								r.Raw += "\n; candidate model obtained without quantified axioms (" + rm.Solver + ")"
							}
						}
					}
				}
				if q.Kind == "cover" && r.Status == "sat" {
					mu.Lock()
					coveredName[q.Name] = true
					mu.Unlock()
				}
				q.Result = r
				q.Lines = nil
				finish()
			}
		}()
	}
	// failing instances first is not known in advance; keep order
	for _, q := range qs {
		ch <- q
	}
	close(ch)
	wg.Wait()
}

// sliceLines keeps the commands in the cone of influence of the goal: the
// definitions of used symbols and the assertions sharing a path-declared
// symbol with it (transitively). Dropping assumptions is sound for proving.
func sliceLines(lines []string, goal string) []string {
	type ln struct {
		text string
		name string // declared / defined symbol
		kind byte   // d declare, f define, a assert
		syms []string
	}
	ls := make([]ln, len(lines))
	declared := map[string]bool{}
	closure := make([]bool, len(lines))
	for i, l := range lines {
		e := ln{text: l}
		if strings.HasPrefix(l, "(assert (forall ((r Int)) (! (=> (and (<= 0 r) (<= r ") || strings.HasPrefix(l, "(assert (forall ((id String)) (! (and (>= (select ") {
			closure[i] = true
		}
		switch {
		case strings.HasPrefix(l, "(declare-const "):
			e.kind = 'd'
			e.name = firstSym(l[len("(declare-const "):])
			declared[e.name] = true
		case strings.HasPrefix(l, "(define-fun "):
			e.kind = 'f'
			e.name = firstSym(l[len("(define-fun "):])
			declared[e.name] = true
			e.syms = symbolsOf(l)
		default:
			e.kind = 'a'
			e.syms = symbolsOf(l)
		}
		ls[i] = e
	}
	used := map[string]bool{}
	for _, s := range symbolsOf(goal) {
		used[s] = true
	}
	inc := make([]bool, len(ls))
	for changed := true; changed; {
		changed = false
		for i := range ls {
			if inc[i] {
				continue
			}
			e := &ls[i]
			hit := false
			switch e.kind {
			case 'd':
				continue
			case 'f':
				hit = used[e.name]
			case 'a':
				if closure[i] {
					// entry-heap closure axiom: relevant only when its array is used; never pulls in more
					for _, s := range e.syms {
						if used[s] && (strings.HasPrefix(s, "H0!") || strings.HasPrefix(s, "|H0!")) {
							hit = true
							break
						}
					}
					if hit {
						inc[i] = true
					}
					continue
				}
				for _, s := range e.syms {
					if used[s] && (declared[s] || strings.HasPrefix(s, "H0!") || strings.HasPrefix(s, "|H0!")) {
						hit = true
						break
					}
				}
			}
			if hit {
				inc[i] = true
				changed = true
				for _, s := range e.syms {
					used[s] = true
				}
			}
		}
	}
	out := make([]string, 0, len(ls))
	for i, e := range ls {
		if e.kind == 'd' {
			if used[e.name] {
				out = append(out, e.text)
			}
			continue
		}
		if inc[i] {
			out = append(out, e.text)
		}
	}
	return out
}

// canon renames the ~N suffixes of path-local symbols by order of first occurrence.
type canonT struct {
	m map[string]string
}

func newCanon() *canonT { return &canonT{m: map[string]string{}} }

func (c *canonT) apply(s string) string {
	var b strings.Builder
	i := 0
	for i < len(s) {
		if s[i] == '~' {
			j := i + 1
			for j < len(s) && s[j] >= '0' && s[j] <= '9' {
				j++
			}
			if j > i+1 {
				k := s[i:j]
				r, ok := c.m[k]
				if !ok {
					r = "~" + strconv.Itoa(len(c.m))
					c.m[k] = r
				}
				b.WriteString(r)
				i = j
				continue
			}
		}
		b.WriteByte(s[i])
		i++
	}
	return b.String()
}

func firstSym(s string) string {
	if strings.HasPrefix(s, "|") {
		if j := strings.Index(s[1:], "|"); j >= 0 {
			return s[:j+2]
		}
	}
	if j := strings.IndexAny(s, " )"); j >= 0 {
		return s[:j]
	}
	return s
}

func dropQuantified(lines []string) []string {
	var out []string
	for _, l := range lines {
		if strings.HasPrefix(l, "(assert (forall ") {
			continue
		}
		out = append(out, l)
	}
	return out
}

func queryUsesStrings(q *Query) bool {
	n := 0
	for _, l := range q.Lines {
		if strings.Contains(l, "str.") {
			n++
		}
	}
	return n > 0 || strings.Contains(q.Goal.S, "str.")
}

func reg_allAxioms(r *Registry) []string {
	r.mu.Lock()
	defer r.mu.Unlock()
	var out []string
	for _, e := range r.entries {
		out = append(out, e.line)
	}
	return out
}

// expKey maps an obligation name to the key under which the committed
// expected list records it. Obligations that are named after a contract
// clause (ensures, requires at a call, call assertion, loop invariant, cover,
// unwind) are expected by clause, without the ordinal of the program point;
// obligations that exist only because of the shape of the code (absence of
// panics at the n-th index expression, frame of the k-th written array) are
// not expected by name: harmless edits renumber them, and a change that
// removes a guard shows up as a failing obligation, not as a missing one.
var siteSuffix = regexp.MustCompile(`(\.[0-9]+)+$`)

func expKey(name string) (string, bool) {
	i := strings.Index(name, "#")
	if i < 0 {
		return name, true
	}
	rest := name[i+1:]
	// inlined callee prefix [..] is kept
	kind := rest
	if j := strings.LastIndex(rest, "]"); j >= 0 {
		kind = rest[j+1:]
	}
	switch {
	case strings.HasPrefix(kind, "panic."), strings.HasPrefix(kind, "frame."), strings.Contains(kind, ".autoframe."):
		return "", false
	case strings.HasPrefix(kind, "inv."), strings.HasPrefix(kind, "unwind"):
		// auxiliary obligations of a loop (invariant holds initially / is preserved; unrolling was enough): they
		// carry no part of a property statement. When a maintainer replaces the loop by a library call they are
		// no longer generated, and the clauses they supported are proved (or not) without them.
		return "", false
	}
	if strings.HasPrefix(kind, "pre.") || strings.HasPrefix(kind, "callassert.") {
		return siteSuffix.ReplaceAllString(name, ""), true
	}
	return name, true
}

func expectedKeyIn(set map[string]bool, name string) bool {
	k, ok := expKey(name)
	return ok && set[k]
}
