package main

import (
	"sort"
	"fmt"
	"go/types"
	"strings"
)

// Library specification of github.com/armon/go-radix as a finite map from
// string keys to interface values (TRUSTED: the radix tree itself is a
// dependency and is not verified):
//
//	RT!has : tree -> (Array String Bool)     key present
//	RT!val : tree -> (Array String Int)      interface value stored under the key
//
// New: empty. Insert(k, v): has[k] := true, val[k] := v, returns the old value
// and whether there was one. Get(k): (val[k], has[k]). Delete(k): has[k] :=
// false. DeletePrefix(p): removes exactly the keys with prefix p. ToMap(): a new
// Go map with the same keys and values. Len(): an arbitrary non-negative number.

const rtHas = "RT!has"
const rtVal = "RT!val"

var rtHasSort = arrSort(SInt, arrSort(SStr, SBool))
var rtValSort = arrSort(SInt, arrSort(SStr, SInt))

func (x *Exec) rtRegister() {
	if _, ok := prefixRegistry["RT"]; !ok {
		prefixRegistry["RT"] = [][2]string{{rtHas, rtHasSort}, {rtVal, rtValSort}}
	}
}

func (x *Exec) rtHasArr(st *State, t Term) Term {
	x.rtRegister()
	return Select(x.heapCur(st, rtHas, rtHasSort), t, arrSort(SStr, SBool))
}

func (x *Exec) rtValArr(st *State, t Term) Term {
	x.rtRegister()
	return Select(x.heapCur(st, rtVal, rtValSort), t, arrSort(SStr, SInt))
}

func (x *Exec) rtSetHas(st *State, t Term, inner Term) {
	a := x.heapCur(st, rtHas, rtHasSort)
	x.heapSet(st, rtHas, StoreT(a, t, inner))
	if !st.Fresh[t.S] {
		st.Dirty[rtHas] = true
	}
}

func (x *Exec) rtSetVal(st *State, t Term, inner Term) {
	a := x.heapCur(st, rtVal, rtValSort)
	x.heapSet(st, rtVal, StoreT(a, t, inner))
	if !st.Fresh[t.S] {
		st.Dirty[rtVal] = true
	}
}

func (x *Exec) rtNonNil(st *State, c *CallCtx, what string) {
	t := c.Args[0].T
	if x.nopanicActive(c.Fr) {
		x.oblige(st, x.obName(c.Fr, "panic.nil.radix."+what+"."+c.Site), Neq(t, IntT(0)), "prove")
	}
	st.assume(Neq(t, IntT(0)))
}

func init() {
	rx := "github.com/armon/go-radix"
	reg(rx+".New", func(x *Exec, st *State, c *CallCtx) []Outcome {
		x.rtRegister()
		r := x.alloc(st)
		inner := arrSort(SStr, SBool)
		x.rtSetHas(st, r, Term{"((as const " + inner + ") false)", inner})
		return one(st, scalar(r, c.ResT.At(0).Type()))
	})
	reg("(*"+rx+".Tree).Insert", func(x *Exec, st *State, c *CallCtx) []Outcome {
		x.rtNonNil(st, c, "Insert")
		t, k, v := c.Args[0].T, c.Args[1].T, c.Args[2]
		had := Select(x.rtHasArr(st, t), k, SBool)
		oldv := Select(x.rtValArr(st, t), k, SInt)
		x.rtSetHas(st, t, StoreT(x.rtHasArr(st, t), k, BoolT(true)))
		x.rtSetVal(st, t, StoreT(x.rtValArr(st, t), k, v.T))
		old := Val{K: VIface, T: Ite(had, oldv, IntT(0)), GoT: c.ResT.At(0).Type()}
		return one(st, old, bval(had))
	})
	reg("(*"+rx+".Tree).Get", func(x *Exec, st *State, c *CallCtx) []Outcome {
		x.rtNonNil(st, c, "Get")
		t, k := c.Args[0].T, c.Args[1].T
		had := Select(x.rtHasArr(st, t), k, SBool)
		v := Select(x.rtValArr(st, t), k, SInt)
		return one(st, Val{K: VIface, T: Ite(had, v, IntT(0)), GoT: c.ResT.At(0).Type()}, bval(had))
	})
	reg("(*"+rx+".Tree).Delete", func(x *Exec, st *State, c *CallCtx) []Outcome {
		x.rtNonNil(st, c, "Delete")
		t, k := c.Args[0].T, c.Args[1].T
		had := Select(x.rtHasArr(st, t), k, SBool)
		v := Select(x.rtValArr(st, t), k, SInt)
		x.rtSetHas(st, t, StoreT(x.rtHasArr(st, t), k, BoolT(false)))
		return one(st, Val{K: VIface, T: Ite(had, v, IntT(0)), GoT: c.ResT.At(0).Type()}, bval(had))
	})
	reg("(*"+rx+".Tree).DeletePrefix", func(x *Exec, st *State, c *CallCtx) []Outcome {
		x.rtNonNil(st, c, "DeletePrefix")
		t, p := c.Args[0].T, c.Args[1].T
		oldHas := x.rtHasArr(st, t)
		nh := x.fresh(st, "rtdelp", arrSort(SStr, SBool))
		st.addCmd(fmt.Sprintf("(assert (forall ((k String)) (! (= (select %s k) (and (select %s k) (not (str.prefixof %s k)))) :pattern ((select %s k)))))", nh.S, oldHas.S, p.S, nh.S))
		x.rtSetHas(st, t, nh)
		n := x.fresh(st, "rtdeln", SInt)
		st.assume(Ge(n, IntT(0)))
		return one(st, intV(n))
	})
	reg("(*"+rx+".Tree).Len", func(x *Exec, st *State, c *CallCtx) []Outcome {
		x.rtNonNil(st, c, "Len")
		n := x.fresh(st, "rtlen", SInt)
		st.assume(Ge(n, IntT(0)))
		return one(st, intV(n))
	})
	reg("(*"+rx+".Tree).ToMap", func(x *Exec, st *State, c *CallCtx) []Outcome {
		x.rtNonNil(st, c, "ToMap")
		t := c.Args[0].T
		mt := c.ResT.At(0).Type()
		p, _, _ := x.mapArrays(mt)
		r := x.alloc(st)
		ha := x.heapCur(st, p+"!has", arrSort(SInt, arrSort(SStr, SBool)))
		x.heapSet(st, p+"!has", StoreT(ha, r, x.rtHasArr(st, t)))
		va := x.heapCur(st, p+"!val", arrSort(SInt, arrSort(SStr, SInt)))
		x.heapSet(st, p+"!val", StoreT(va, r, x.rtValArr(st, t)))
		return one(st, scalar(r, mt))
	})
}

// rtSpec: spec-language access to the tree model.
//
//	rtHas(t, k)      key k present in tree t
//	rtBytes(t, k)    content of the []byte value stored under k
//	rtWf(t)          every stored value is a non-nil []byte that exists (allocated below the current watermark)
func (x *Exec) rtSpec(st *State, fn string, a []Val) (Val, bool, error) {
	switch fn {
	case "rtHas":
		return bval(Select(x.rtHasArr(st, a[0].T), a[1].T, SBool)), true, nil
	case "rtBytes":
		x.declIfaceFns()
		v := Select(x.rtValArr(st, a[0].T), a[1].T, SInt)
		return strV(x.bytesContent(st, app("payl", SInt, v))), true, nil
	case "rtWf":
		x.declIfaceFns()
		bt := types.NewSlice(types.Typ[types.Byte])
		tag := x.typeTag(bt)
		x.declareTagDistinct(bt)
		h, v := x.rtHasArr(st, a[0].T), x.rtValArr(st, a[0].T)
		wm := Add(st.AllocBase, IntT(int64(st.AllocN)))
		body := fmt.Sprintf("(forall ((k String)) (! (=> (select %s k) (and (= (dyntag (select %s k)) %s) (> (payl (select %s k)) 0) (<= (payl (select %s k)) %s))) :pattern ((select %s k))))", h.S, v.S, tag.S, v.S, v.S, wm.S, v.S)
		if strings.Contains(body, "!q") {
			return Val{}, true, fmt.Errorf("rtWf under a quantifier is not supported")
		}
		return bval(Term{body, SBool}), true, nil
	}
	return Val{}, false, nil
}

// GetId / GetNodeId through an interface whose dynamic type is not known
// statically: for the storage message types the result is the field of the
// message held by the interface; for any other dynamic type it is arbitrary.
func init() {
	for _, m := range []string{"Id", "NodeId"} {
		m := m
		reg("iface:*.Get"+m, func(x *Exec, st *State, c *CallCtx) []Outcome {
			x.declIfaceFns()
			recv := c.Args[0]
			res := x.fresh(st, "get"+m, SStr)
			var tns []string
			for tn := range kindOfType {
				tns = append(tns, tn)
			}
			tns = append(tns, "types.NodeInformationSet")
			sort.Strings(tns)
			for _, tn := range tns {
				mt := x.lookupNamed(tn)
				if mt == nil || fieldByName(mt, m) == nil {
					continue
				}
				pt := types.NewPointer(mt)
				tag := x.typeTag(pt)
				x.declareTagDistinct(pt)
				fv := x.readComp(st, fieldPrefix(mt, m), SStr, app("payl", SInt, recv.T))
				st.assume(Implies(Eq(app("dyntag", SInt, recv.T), tag), Eq(res, Ite(Eq(app("payl", SInt, recv.T), IntT(0)), StrT(""), fv))))
			}
			return one(st, strV(res))
		})
	}
}
