package main

import (
	"crypto/sha256"
	"encoding/hex"
	"fmt"
	"go/ast"
	"go/constant"
	"go/token"
	"go/types"
	"os"
	"sort"
	"strconv"
	"strings"

	"golang.org/x/tools/go/ssa"
)

const (
	maxInlineDepth = 6
	defaultUnroll  = 3
	maxPaths       = 60000
	maxQueries     = 200000
)

// Exec verifies one top-level function for one property.
type Exec struct {
	*Ctx
	Prop      string
	TopFn     *ssa.Function
	TopKey    string
	Contract  *Contract
	Queries   []*Query
	instCount map[string]int
	sites     map[*ssa.Function]map[ssa.Instruction]string
	Old       *State // entry snapshot of the top function
	Params    map[string]Val
	paths     int
	ends      int
	Faulty    bool
	ClockInstant bool
	Errors    []string
	nopanic   bool
	debug     bool
	// mode: "verify" (default) | "summary" (closure summarisation: no obligations)
	Mode       string
	SummaryEnd func(st *State, results []Val)
	retCover   map[string]bool
}

type Outcome struct {
	St  *State
	Res []Val
}

type CallCtx struct {
	Instr  ssa.CallInstruction
	Common *ssa.CallCommon
	Args   []Val
	Name   string // callee key or full name
	Site   string
	Fr     *Frame
	ResT   *types.Tuple
	Bind   []Val // bindings of the callee's free variables when the callee is a closure created on this path
	Extra  map[string]Val // additional names for the callee's contract (result values fixed by the caller)
}

func (x *Exec) errorf(f string, a ...interface{}) {
	msg := fmt.Sprintf(f, a...)
	for _, e := range x.Errors {
		if e == msg {
			return
		}
	}
	x.Errors = append(x.Errors, msg)
}

// ---------------------------------------------------------------- obligations

func (x *Exec) oblige(st *State, name string, goal Term, kind string) {
	if x.Mode == "summary" {
		return
	}
	if kind == "prove" && isLit(goal, "true") {
		// still count it as an instance so the obligation exists
		q := &Query{Name: name, Inst: x.instCount[name], Kind: kind, Goal: goal, Meta: map[string]string{"trivial": "1"}}
		x.instCount[name]++
		q.Result = SolveResult{Status: "unsat", Solver: "syntactic", Ms: 0}
		x.Queries = append(x.Queries, q)
		return
	}
	if st.Dead {
		return
	}
	q := &Query{Name: name, Inst: x.instCount[name], Kind: kind, Goal: goal, Meta: map[string]string{}}
	x.instCount[name]++
	q.Path = st.Cmds
	if len(x.Queries) > maxQueries {
		x.errorf("more than %d solver instances in %s: path explosion; add contracts or invariants", maxQueries, x.TopKey)
		st.Dead = true
		return
	}
	if len(st.Trace) > 0 {
		q.Meta["trace"] = strings.Join(st.Trace, " ")
	}
	x.Queries = append(x.Queries, q)
}

func (x *Exec) obName(fr *Frame, kind string) string {
	return x.TopKey + "#" + fr.Prefix + kind
}

// siteName: stable ordinal of an instruction among instructions of the same
// category within its function.
func (x *Exec) siteName(fn *ssa.Function, ins ssa.Instruction) string {
	m := x.sites[fn]
	if m == nil {
		m = map[ssa.Instruction]string{}
		counts := map[string]int{}
		for _, b := range fn.Blocks {
			for _, i := range b.Instrs {
				cat := ""
				switch v := i.(type) {
				case *ssa.Slice:
					cat = "slice"
				case *ssa.IndexAddr, *ssa.Index:
					cat = "index"
				case *ssa.FieldAddr:
					cat = "nil"
				case *ssa.TypeAssert:
					if !v.CommaOk {
						cat = "assert"
					}
				case *ssa.Panic:
					cat = "panic"
				case *ssa.BinOp:
					if v.Op == token.QUO || v.Op == token.REM {
						cat = "div"
					}
				case *ssa.UnOp:
					if v.Op == token.MUL {
						cat = "deref"
					}
				case *ssa.MapUpdate:
					cat = "mapupdate"
				case *ssa.MakeSlice:
					cat = "makeslice"
				case ssa.CallInstruction:
					cat = "call." + calleeName(v.Common())
				}
				if cat != "" {
					m[i] = cat + "." + strconv.Itoa(counts[cat])
					counts[cat]++
				}
			}
		}
		x.sites[fn] = m
	}
	return m[ins]
}

func calleeName(c *ssa.CallCommon) string {
	if c.IsInvoke() {
		return "iface:" + typeName(c.Value.Type()) + "." + c.Method.Name()
	}
	if fn := c.StaticCallee(); fn != nil {
		if inModuleFn(fn) {
			return funcKey(fn)
		}
		return extName(fn)
	}
	if b, ok := c.Value.(*ssa.Builtin); ok {
		return "builtin." + b.Name()
	}
	// dynamic call through a function value: name by field or named type
	if u, ok := c.Value.(*ssa.UnOp); ok {
		if fa, ok := u.X.(*ssa.FieldAddr); ok {
			st := fa.X.Type().Underlying().(*types.Pointer).Elem()
			return "field:" + typeName(st) + "." + st.Underlying().(*types.Struct).Field(fa.Field).Name()
		}
	}
	return "dyn:" + typeName(c.Value.Type())
}

func inModuleFn(fn *ssa.Function) bool {
	root := fn
	for root.Parent() != nil {
		root = root.Parent()
	}
	if root.Pkg != nil {
		return inModule(root.Pkg.Pkg)
	}
	if root.Object() != nil {
		return inModule(root.Object().Pkg())
	}
	return false
}

// extName: canonical name of an external function, e.g. strings.HasPrefix,
// (*crypto/x509.Certificate).Verify
func extName(fn *ssa.Function) string {
	if fn.Signature.Recv() != nil {
		rt := fn.Signature.Recv().Type()
		ptr := ""
		if p, ok := rt.(*types.Pointer); ok {
			rt = p.Elem()
			ptr = "*"
		}
		if n, ok := rt.(*types.Named); ok && n.Obj().Pkg() != nil {
			return "(" + ptr + n.Obj().Pkg().Path() + "." + n.Obj().Name() + ")." + fn.Name()
		}
		return "(" + ptr + rt.String() + ")." + fn.Name()
	}
	name := fn.Name()
	if i := strings.Index(name, "["); i > 0 {
		name = name[:i] // instance of a generic function: named like its origin (slices.Contains)
	}
	if fn.Pkg != nil {
		return fn.Pkg.Pkg.Path() + "." + name
	}
	if fn.Object() != nil && fn.Object().Pkg() != nil {
		return fn.Object().Pkg().Path() + "." + name
	}
	return fn.String()
}

// ---------------------------------------------------------------- symbolic parameters

func (x *Exec) symValue(st *State, name string, t types.Type, entry bool) Val {
	if isTimeTime(t) {
		return scalar(x.fresh(st, name, SInt), t)
	}
	switch u := t.Underlying().(type) {
	case *types.Slice:
		if isByteSlice(t) {
			r := x.fresh(st, name, SInt)
			st.assume(Ge(r, IntT(0)))
			if entry {
				st.assume(Le(r, st.AllocBase))
				st.Older[r.S] = 0
			}
			return scalar(r, t)
		}
		v := Val{K: VSlice, GoT: t}
		v.Ref = x.fresh(st, name+"!ref", SInt)
		v.Off = IntT(0)
		v.Len = x.fresh(st, name+"!len", SInt)
		v.Cap = x.fresh(st, name+"!cap", SInt)
		st.assume(And(Ge(v.Ref, IntT(0)), Ge(v.Len, IntT(0)), Le(v.Len, v.Cap)))
		st.assume(Implies(Eq(v.Ref, IntT(0)), Eq(v.Cap, IntT(0))))
		if entry {
			st.assume(Le(v.Ref, st.AllocBase))
			st.Older[v.Ref.S] = 0
		}
		if isOptionSlice(t) {
			v.Abs = &OptAbs{Base: x.fresh(st, name+"!abs", SInt)}
		}
		return v
	case *types.Struct:
		v := Val{K: VStruct, GoT: t}
		for i := 0; i < u.NumFields(); i++ {
			v.Parts = append(v.Parts, x.symValue(st, name+"."+u.Field(i).Name(), u.Field(i).Type(), entry))
		}
		return v
	case *types.Interface:
		r := x.fresh(st, name, SInt)
		st.assume(Ge(r, IntT(0)))
		if entry && st.WM0.S != "" {
			// what an interface value of the entry state holds exists at entry
			x.declIfaceFns()
			st.assume(And(Ge(app("payl", SInt, r), IntT(0)), Le(app("payl", SInt, r), st.WM0)))
		}
		return Val{K: VIface, T: r, GoT: t}
	case *types.Signature:
		r := x.fresh(st, name, SInt)
		st.assume(Ge(r, IntT(0)))
		return Val{K: VFunc, T: r, GoT: t}
	case *types.Basic:
		switch {
		case u.Info()&types.IsBoolean != 0:
			return scalar(x.fresh(st, name, SBool), t)
		case u.Info()&types.IsString != 0:
			return scalar(x.fresh(st, name, SStr), t)
		default:
			r := x.fresh(st, name, SInt)
			if u.Info()&types.IsUnsigned != 0 {
				st.assume(Ge(r, IntT(0)))
			}
			return scalar(r, t)
		}
	case *types.Tuple:
		v := Val{K: VTuple, GoT: t}
		for i := 0; i < u.Len(); i++ {
			v.Parts = append(v.Parts, x.symValue(st, name+"!"+strconv.Itoa(i), u.At(i).Type(), entry))
		}
		return v
	default: // pointers, maps, chans
		r := x.fresh(st, name, SInt)
		st.assume(Ge(r, IntT(0)))
		if entry {
			st.assume(Le(r, st.AllocBase))
			st.Older[r.S] = 0
		}
		return scalar(r, t)
	}
}

// ---------------------------------------------------------------- running

func (x *Exec) newState() *State {
	st := &State{Heap: map[string]string{}, Fwd: map[string]Val{}, Fresh: map[string]bool{}, Notes: map[string]bool{}, Dirty: map[string]bool{}, Flags: map[string]bool{}, Log: map[string]*logNode{}, FreshSeq: map[string]int{}, Older: map[string]int{}, PostEntry: map[string]bool{}}
	st.NonNil = map[string]bool{}
	st.AllocBase = x.fresh(st, "wm0", SInt)
	st.WM0 = st.AllocBase
	st.assume(Ge(st.AllocBase, IntT(0)))
	if x.Mode != "summary" {
		x.assumeEntryHeapClosed(st)
	}
	return st
}

func (x *Exec) pushFrame(st *State, fn *ssa.Function, args []Val, bind []Val, call ssa.CallInstruction, prefix string, depth int) *Frame {
	fr := &Frame{Fn: fn, Env: map[ssa.Value]Val{}, Dbg: map[string]Val{}, Visits: map[int]int{}, Cut: map[int]bool{}, LoopFrames: map[int][]loopFrameRec{}, CallIns: call, Prefix: prefix, Depth: depth}
	for i, p := range fn.Params {
		if i < len(args) {
			v := args[i]
			fr.Env[p] = v
			fr.Dbg[p.Name()] = v
		}
	}
	for i, fv := range fn.FreeVars {
		if i < len(bind) {
			fr.Env[fv] = bind[i]
			fr.Dbg[fv.Name()] = bind[i]
		}
	}
	if len(fn.Blocks) > 0 {
		fr.Block = fn.Blocks[0]
	}
	st.Frames = append(st.Frames, fr)
	return fr
}

// run explores all paths from st (DFS).
func (x *Exec) run(st *State) {
	stack := []*State{st}
	for len(stack) > 0 {
		s := stack[len(stack)-1]
		stack = stack[:len(stack)-1]
		x.paths++
		if x.paths > maxPaths {
			x.errorf("path limit exceeded in %s", x.TopKey)
			return
		}
		for !s.Dead && len(s.Frames) > 0 {
			more := x.step(s)
			if len(more) > 0 {
				// s itself continues unless dead; push alternatives
				stack = append(stack, more...)
			}
		}
	}
}

func (x *Exec) val(fr *Frame, v ssa.Value) Val {
	switch c := v.(type) {
	case *ssa.Const:
		return x.constVal(c)
	case *ssa.Function:
		return Val{K: VFunc, Fn: c, GoT: c.Type(), T: x.funcID(c)}
	case *ssa.Global:
		return x.globalAddr(c)
	case *ssa.Builtin:
		return Val{K: VFunc, GoT: c.Type(), T: IntT(-1)}
	}
	if r, ok := fr.Env[v]; ok {
		return r
	}
	panic(fmt.Sprintf("no value for %s (%T) in %s", v.Name(), v, fr.Fn))
}

func (x *Exec) funcID(fn *ssa.Function) Term {
	name := "fn!" + fn.String()
	t := x.Reg.DeclareConst(name, SInt)
	x.Reg.Axiom("fnpos:"+name, Gt(t, IntT(0)).S)
	return t
}

func (x *Exec) globalAddr(g *ssa.Global) Val {
	et := g.Type().(*types.Pointer).Elem()
	return Val{K: VAddr, GoT: g.Type(), A: &Addr{Prefix: "G!" + shortPkg(g.Pkg.Pkg.Path()) + "." + g.Name(), Ref: IntT(1), T: et}}
}

func (x *Exec) constVal(c *ssa.Const) Val {
	t := c.Type()
	if c.Value == nil {
		z := zeroVal(t)
		if z.K == VSlice && isOptionSlice(t) {
			z.Abs = &OptAbs{Base: IntT(0)}
		}
		return z
	}
	switch c.Value.Kind() {
	case constant.Bool:
		return scalar(BoolT(constant.BoolVal(c.Value)), t)
	case constant.String:
		return scalar(StrT(constant.StringVal(c.Value)), t)
	case constant.Int:
		if i, ok := constant.Int64Val(c.Value); ok {
			return scalar(IntT(i), t)
		}
		if u, ok := constant.Uint64Val(c.Value); ok {
			return scalar(Term{strconv.FormatUint(u, 10), SInt}, t)
		}
		return scalar(Term{c.Value.ExactString(), SInt}, t)
	case constant.Float:
		f, _ := constant.Float64Val(c.Value)
		return scalar(IntT(int64(f)), t)
	}
	return zeroVal(t)
}

func (x *Exec) setVal(fr *Frame, v ssa.Value, val Val) {
	if val.GoT == nil {
		val.GoT = v.Type()
	}
	fr.Env[v] = val
}

// truth converts a boolean Val to a Term
func truth(v Val) Term { return v.T }

// step executes one instruction of the top frame. Returns alternative states.
func (x *Exec) step(st *State) []*State {
	fr := st.top()
	if fr.Block == nil {
		st.Dead = true
		return nil
	}
	if fr.Idx >= len(fr.Block.Instrs) {
		st.Dead = true
		x.errorf("fell off block in %s", fr.Fn)
		return nil
	}
	ins := fr.Block.Instrs[fr.Idx]
	fr.Idx++
	defer func() {
		if r := recover(); r != nil {
			pos := x.Prog.Fset.Position(ins.Pos())
			x.errorf("engine: %v at %s (%s in %s)", r, pos, ins, fr.Fn)
			x.note(x.Outside, fmt.Sprintf("%s: %v", funcKey(fr.Fn), r))
			st.Dead = true
			if os.Getenv("GOVC_PANIC") != "" {
				panic(r)
			}
		}
	}()
	switch v := ins.(type) {
	case *ssa.DebugRef:
		if e := v.Expr; e != nil && !v.IsAddr {
			if val, ok := fr.Env[v.X]; ok {
				fr.Dbg[exprString(e)] = val
			} else if _, isC := v.X.(*ssa.Const); isC {
				fr.Dbg[exprString(e)] = x.val(fr, v.X)
			}
		} else if e != nil && v.IsAddr {
			if val, ok := fr.Env[v.X]; ok {
				fr.Dbg["&"+exprString(e)] = val
			}
		}
	case *ssa.Alloc:
		x.setVal(fr, v, x.doAlloc(st, v.Type().(*types.Pointer).Elem(), v.Type()))
	case *ssa.FieldAddr:
		x.setVal(fr, v, x.fieldAddr(st, fr, v))
	case *ssa.Field:
		sv := x.val(fr, v.X)
		x.setVal(fr, v, sv.Parts[v.Field])
	case *ssa.IndexAddr:
		x.setVal(fr, v, x.indexAddr(st, fr, v))
	case *ssa.Index:
		x.setVal(fr, v, x.index(st, fr, v))
	case *ssa.UnOp:
		x.setVal(fr, v, x.unop(st, fr, v))
	case *ssa.BinOp:
		x.setVal(fr, v, x.binop(st, fr, v))
	case *ssa.Store:
		x.store(st, fr, x.val(fr, v.Addr), x.val(fr, v.Val))
	case *ssa.Phi:
		// phis are evaluated on block entry (enterBlock)
	case *ssa.Extract:
		t := x.val(fr, v.Tuple)
		p := t.Parts[v.Index]
		x.setVal(fr, v, p)
	case *ssa.MakeInterface:
		x.setVal(fr, v, x.makeInterface(st, x.val(fr, v.X), v.X.Type(), v.Type()))
	case *ssa.ChangeInterface:
		xv := x.val(fr, v.X)
		xv.GoT = v.Type()
		x.setVal(fr, v, xv)
	case *ssa.ChangeType:
		xv := x.val(fr, v.X)
		xv.GoT = v.Type()
		x.setVal(fr, v, xv)
	case *ssa.Convert:
		x.setVal(fr, v, x.convert(st, x.val(fr, v.X), v.X.Type(), v.Type()))
	case *ssa.TypeAssert:
		return x.typeAssert(st, fr, v)
	case *ssa.MakeClosure:
		fn := v.Fn.(*ssa.Function)
		var bind []Val
		for _, b := range v.Bindings {
			bind = append(bind, x.val(fr, b))
		}
		id := x.fresh(st, "clo", SInt)
		st.assume(Gt(id, IntT(0)))
		cv := Val{K: VFunc, Fn: fn, Bind: bind, T: id, GoT: v.Type()}
		closureReg[id.S] = cv // a closure value read back from a heap field is recognised by its identity term
		x.setVal(fr, v, cv)
	case *ssa.MakeSlice:
		x.setVal(fr, v, x.makeSlice(st, fr, v))
	case *ssa.Slice:
		x.setVal(fr, v, x.sliceOp(st, fr, v))
	case *ssa.MakeMap:
		r := x.alloc(st)
		x.mapInit(st, v.Type(), r)
		x.setVal(fr, v, scalar(r, v.Type()))
	case *ssa.MapUpdate:
		x.mapUpdate(st, fr, v)
	case *ssa.Lookup:
		x.setVal(fr, v, x.lookup(st, fr, v))
	case *ssa.MakeChan:
		x.setVal(fr, v, scalar(x.alloc(st), v.Type()))
	case *ssa.Range:
		x.setVal(fr, v, x.rangeInit(st, fr, v))
	case *ssa.Next:
		x.setVal(fr, v, x.rangeNext(st, fr, v))
	case *ssa.Select:
		x.setVal(fr, v, x.selectOp(st, fr, v))
	case *ssa.Send:
		// effect on channels not modelled
	case *ssa.Go:
		x.note(x.Assumed, "go statement in "+funcKey(fr.Fn)+": spawned call skipped (verified separately if under contract)")
	case *ssa.Defer:
		var args []Val
		for _, a := range v.Call.Args {
			args = append(args, x.val(fr, a))
		}
		var fv Val
		if !v.Call.IsInvoke() {
			fv = x.val(fr, v.Call.Value)
		} else {
			fv = x.val(fr, v.Call.Value)
		}
		cc := v.Call
		fr.Defers = append(fr.Defers, deferRec{Call: &cc, Fn: fv, Args: args})
	case *ssa.RunDefers:
		// deferred calls in this code base are mutex unlocks, cancel funcs and
		// Close calls; run those that are intrinsics/no-ops, record others
		for i := len(fr.Defers) - 1; i >= 0; i-- {
			d := fr.Defers[i]
			name := calleeName(d.Call)
			// deferred library calls that have a single-outcome specification (mutex unlocks) take effect
			if in, ok := intrinsics[name]; ok && strings.Contains(name, "sync.") {
				args := d.Args
				if d.Call.IsInvoke() {
					args = append([]Val{d.Fn}, args...)
				}
				cc := &CallCtx{Common: d.Call, Args: args, Name: name, Site: "defer", Fr: fr, ResT: d.Call.Signature().Results()}
				if outs := in(x, st, cc); len(outs) == 1 && outs[0].St == st {
					continue
				}
			}
			x.note(x.Assumed, "deferred call "+name+" in "+funcKey(fr.Fn)+" treated as effect-free")
		}
		fr.Defers = nil
	case *ssa.Panic:
		if x.nopanicActive(fr) {
			x.oblige(st, x.obName(fr, "panic."+x.siteName(fr.Fn, v)), BoolT(false), "prove")
		}
		st.Dead = true
	case *ssa.Call:
		return x.doCall(st, fr, v)
	case *ssa.If:
		return x.doIf(st, fr, v)
	case *ssa.Jump:
		return x.enterBlock(st, fr, fr.Block.Succs[0])
	case *ssa.Return:
		var res []Val
		for _, r := range v.Results {
			res = append(res, x.val(fr, r))
		}
		return x.doReturn(st, fr, res)
	default:
		panic(fmt.Sprintf("unsupported instruction %T", ins))
	}
	return nil
}

func exprString(e ast.Expr) string { return types.ExprString(e) }

func (x *Exec) nopanicActive(fr *Frame) bool { return x.nopanic }

// ---------------------------------------------------------------- control flow

func (x *Exec) doIf(st *State, fr *Frame, v *ssa.If) []*State {
	c := truth(x.val(fr, v.Cond))
	tb, fb := fr.Block.Succs[0], fr.Block.Succs[1]
	if isLit(c, "true") {
		return x.enterBlock(st, fr, tb)
	}
	if isLit(c, "false") {
		return x.enterBlock(st, fr, fb)
	}
	if st.Known.has(c.S) {
		return x.enterBlock(st, fr, tb)
	}
	if st.Known.has(Not(c).S) {
		return x.enterBlock(st, fr, fb)
	}
	// solver-based feasibility pruning inside loops and once the function has many paths
	if x.Mode != "summary" && (x.inLoop(fr.Fn, fr.Block) || x.paths > 150) {
		if !x.feasible(st, c) {
			st.assume(Not(c))
			return x.enterBlock(st, fr, fb)
		}
		if !x.feasible(st, Not(c)) {
			st.assume(c)
			return x.enterBlock(st, fr, tb)
		}
	}
	alt := st.clone()
	afr := alt.top()
	st.assume(c)
	st.Branch = append(st.Branch, c)
	alt.Branch = append(alt.Branch, Not(c))
	st.Trace = append(st.Trace, fmt.Sprintf("b%d:T", fr.Block.Index))
	alt.assume(Not(c))
	alt.Trace = append(alt.Trace, fmt.Sprintf("b%d:F", fr.Block.Index))
	more := x.enterBlock(st, fr, tb)
	more2 := x.enterBlock(alt, afr, fb)
	out := append(more, more2...)
	if !alt.Dead {
		out = append(out, alt)
	}
	return out
}

// enterBlock moves the frame to block b, evaluating phis and handling loop heads.
func (x *Exec) enterBlock(st *State, fr *Frame, b *ssa.BasicBlock) []*State {
	pred := fr.Block
	li := x.loops(fr.Fn)
	// evaluate phis simultaneously
	assignPhis := func() {
		var phis []*ssa.Phi
		var vals []Val
		for _, ins := range b.Instrs {
			p, ok := ins.(*ssa.Phi)
			if !ok {
				break
			}
			for i, pb := range b.Preds {
				if pb == pred {
					phis = append(phis, p)
					vals = append(vals, x.val(fr, p.Edges[i]))
					break
				}
			}
		}
		for i, p := range phis {
			v := vals[i]
			v.GoT = p.Type()
			fr.Env[p] = v
			if p.Comment != "" {
				fr.Dbg[p.Comment] = v
			}
		}
	}
	hdr, isHdr := li.headers[b.Index]
	if !isHdr {
		assignPhis()
		fr.Prev, fr.Block, fr.Idx = pred, b, 0
		return nil
	}
	backEdge := hdr.body[pred.Index]
	ct := x.contractFor(fr)
	var invs []*Clause
	if ct != nil {
		for _, iv := range ct.Invs {
			if iv.Loop == hdr.ordinal {
				invs = append(invs, iv)
			}
		}
	}
	if len(invs) == 0 {
		// unrolling with unwinding assertion
		bound := defaultUnroll
		if ct != nil {
			if n, ok := ct.Unroll[hdr.ordinal]; ok {
				bound = n
			}
		}
		if !backEdge {
			fr.Visits[b.Index] = 0
		} else {
			fr.Visits[b.Index]++
			if fr.Visits[b.Index] > bound {
				x.oblige(st, x.obName(fr, fmt.Sprintf("unwind.loop%d", hdr.ordinal)), BoolT(false), "prove")
				st.Dead = true
				return nil
			}
		}
		assignPhis()
		fr.Prev, fr.Block, fr.Idx = pred, b, 0
		return nil
	}
	assignPhis()
	fr.Prev, fr.Block, fr.Idx = pred, b, 0
	if !backEdge {
		// first arrival: establish, havoc, assume
		for _, iv := range invs {
			env, old := x.clauseEnv(st, fr, nil, nil)
			x.obligeParts(st, old, fr, ct, iv.E, env, x.obName(fr, fmt.Sprintf("inv.init.loop%d.%s", hdr.ordinal, clauseLabel(iv))))
		}
		x.havocLoop(st, fr, hdr)
		for _, iv := range invs {
			g := x.evalClause(st, fr, iv, nil, nil)
			st.assume(g)
			x.notePostEntry(st, fr, iv.E)
		}
		fr.Cut[b.Index] = true
		return nil
	}
	for _, iv := range invs {
		env, old := x.clauseEnv(st, fr, nil, nil)
		x.obligeParts(st, old, fr, ct, iv.E, env, x.obName(fr, fmt.Sprintf("inv.pres.loop%d.%s", hdr.ordinal, clauseLabel(iv))))
	}
	for _, r := range fr.LoopFrames[b.Index] {
		g := x.loopFrameFormula(st, r)
		x.oblige(st, x.obName(fr, fmt.Sprintf("inv.pres.loop%d.autoframe.%s", hdr.ordinal, r.Name)), g, "prove")
	}
	st.Dead = true
	return nil
}

func clauseLabel(c *Clause) string {
	if c.Label != "" {
		return c.Label
	}
	// unlabelled clause: named by its text, not by its line (inserting a line above must not rename it)
	h := sha256.Sum256([]byte(strings.Join(strings.Fields(c.Src), " ")))
	return "u" + hex.EncodeToString(h[:4])
}

func (x *Exec) contractFor(fr *Frame) *Contract {
	return x.CS.ByKey[funcKey(fr.Fn)]
}

// havocLoop havocs the header phis and every heap array the loop may write.
func (x *Exec) havocLoop(st *State, fr *Frame, h *loopHdr) {
	b := fr.Fn.Blocks[h.header]
	for _, ins := range b.Instrs {
		p, ok := ins.(*ssa.Phi)
		if !ok {
			break
		}
		old := fr.Env[p]
		nv := x.symValue(st, "loop!"+p.Name(), p.Type(), false)
		if old.K == VSlice && nv.K == VSlice && old.Abs != nil {
			// option lists assigned in loops are not tracked
			nv.Abs = &OptAbs{Base: x.fresh(st, "loopabs", SInt)}
		}
		fr.Env[p] = nv
		if p.Comment != "" {
			fr.Dbg[p.Comment] = nv
		}
		x.markOlderVal(st, nv)
		x.bumpForVal(st, nv)
	}
	// objects allocated by earlier iterations lie below everything allocated from now on
	x.bumpAbove(st, IntT(0))
	st.LoopWM = st.AllocBase
	mods := x.loopMods(fr.Fn, h)
	names := make([]string, 0, len(mods))
	for n := range mods {
		names = append(names, n)
	}
	sort.Strings(names)
	var recs []loopFrameRec
	for _, n := range names {
		for _, ps := range x.prefixSorts(n) {
			if strings.HasPrefix(ps[0], "C!") || strings.HasPrefix(ps[0], "M!") {
				continue
			}
			recs = append(recs, loopFrameRec{Name: ps[0], Sort: ps[1], Pre: x.heapCur(st, ps[0], ps[1]).S})
		}
		x.havocPrefix(st, n)
	}
	fr.LoopFrames[h.header] = recs
	for _, r := range recs {
		st.assume(x.loopFrameFormula(st, r))
	}
}

// loopFrameFormula: objects that existed when the verified function was entered
// (and are not listed in its modifies clause) have the value they had before the loop.
func (x *Exec) loopFrameFormula(st *State, r loopFrameRec) Term {
	cur := x.heapCur(st, r.Name, r.Sort)
	if cur.S == r.Pre {
		return BoolT(true)
	}
	wm := x.entryWM(st)
	q := Term{"r!lf", SInt}
	conds := []Term{Ge(q, IntT(0)), Le(q, wm)}
	for _, l := range x.topMods(st) {
		if l.Ref == nil {
			if strings.HasPrefix(r.Name, l.Prefix) {
				return BoolT(true)
			}
			continue
		}
		if r.Name == l.Prefix || strings.HasPrefix(r.Name, l.Prefix+"!") || strings.HasPrefix(r.Name, l.Prefix+".") {
			conds = append(conds, Neq(q, *l.Ref))
		}
	}
	elemSort := r.Sort[len("(Array Int ") : len(r.Sort)-1]
	body := Implies(And(conds...), Eq(Select(cur, q, elemSort), Select(Term{r.Pre, r.Sort}, q, elemSort)))
	return Term{"(forall ((r!lf Int)) " + body.S + ")", SBool}
}

func (x *Exec) topMods(st *State) []modLoc {
	if x.Contract == nil || x.Old == nil {
		return nil
	}
	env := map[string]Val{}
	for k, v := range x.Params {
		env[k] = v
	}
	x.evalLets(st, x.Old, x.Contract, env)
	return x.modLocs(st, x.Old, x.Contract, env)
}

// havocPrefix havocs all heap arrays (components) registered under prefix.
func (x *Exec) havocPrefix(st *State, prefix string) {
	sorts := x.prefixSorts(prefix)
	for _, ps := range sorts {
		x.havocArray(st, ps[0], ps[1])
	}
	for k := range st.Fwd {
		if strings.HasPrefix(k, prefix) {
			delete(st.Fwd, k)
		}
	}
}

func (x *Exec) doReturn(st *State, fr *Frame, res []Val) []*State {
	if len(st.Frames) == 1 {
		x.ends++
		if x.debug && os.Getenv("GOVC_TRACE") != "" {
			fmt.Fprintf(os.Stderr, "RET b%d %s\n", fr.Block.Index, strings.Join(st.Trace, " "))
		}
		if x.Mode == "summary" {
			if x.SummaryEnd != nil {
				x.SummaryEnd(st, res)
			}
			st.Frames = nil
			return nil
		}
		x.checkReturn(st, fr, res)
		st.Frames = nil
		return nil
	}
	call := fr.CallIns
	st.Frames = st.Frames[:len(st.Frames)-1]
	caller := st.top()
	if call != nil {
		if cv, ok := call.(ssa.Value); ok {
			x.bindResult(caller, cv, res)
		}
	}
	return nil
}

func (x *Exec) bindResult(fr *Frame, cv ssa.Value, res []Val) {
	switch len(res) {
	case 0:
	case 1:
		v := res[0]
		x.setVal(fr, cv, v)
	default:
		x.setVal(fr, cv, Val{K: VTuple, Parts: res, GoT: cv.Type()})
	}
}

// ---------------------------------------------------------------- memory instructions

func (x *Exec) doAlloc(st *State, et types.Type, pt types.Type) Val {
	r := x.alloc(st)
	if at, ok := et.Underlying().(*types.Array); ok {
		if b, isB := at.Elem().Underlying().(*types.Basic); isB && b.Kind() == types.Uint8 {
			// a byte array is a bytes object (content of that length)
			c := x.fresh(st, "bytearr", SStr)
			st.assume(Eq(StrLen(c), IntT(at.Len())))
			x.writeComp(st, bytesArr, SStr, r, c)
			return scalar(r, pt)
		}
		x.zeroRow(st, at.Elem(), r)
		return scalar(r, pt)
	}
	if typeName(et) == "sync.Map" {
		// the zero sync.Map is empty
		inner := arrSort(SInt, SBool)
		x.smRegister()
		a := x.heapCur(st, smHas, smHasSort)
		x.heapSet(st, smHas, StoreT(a, r, Term{"((as const " + inner + ") false)", inner}))
		return scalar(r, pt)
	}
	if isStructVal(et) {
		x.zeroStruct(st, et, r)
	} else {
		a := &Addr{Prefix: cellPrefix(et), Ref: r, T: et}
		x.storeLoc(st, a, zeroVal(et))
	}
	return scalar(r, pt)
}

// zeroRow makes the element row of a fresh array / slice backing all zero.
func (x *Exec) zeroRow(st *State, et types.Type, r Term) {
	x.registerElemPrefix(elemPrefix(et), et)
	for _, cpn := range comps(et) {
		name := elemPrefix(et) + cpn.Suffix
		inner := arrSort(SInt, cpn.Sort)
		zero := Term{"((as const " + inner + ") " + zeroTerm(cpn.Sort).S + ")", inner}
		x.writeRow(st, name, inner, r, zero)
	}
}

func (x *Exec) zeroStruct(st *State, t types.Type, r Term) {
	if isTimestampType(t) {
		x.tsSet(st, r, IntT(0))
	}
	s := t.Underlying().(*types.Struct)
	for i := 0; i < s.NumFields(); i++ {
		f := s.Field(i)
		a := &Addr{Prefix: fieldPrefix(t, f.Name()), Ref: r, T: f.Type()}
		x.registerPrefix(a.Prefix, f.Type())
		x.storeLoc(st, a, zeroVal(f.Type()))
	}
}

func (x *Exec) fieldAddr(st *State, fr *Frame, v *ssa.FieldAddr) Val {
	base := x.val(fr, v.X)
	pt := v.X.Type().Underlying().(*types.Pointer).Elem()
	s := pt.Underlying().(*types.Struct)
	f := s.Field(v.Field)
	switch base.K {
	case VScalar:
		x.nilCheck(st, fr, base.T, v)
		a := &Addr{Prefix: fieldPrefix(pt, f.Name()), Ref: base.T, T: f.Type()}
		x.registerPrefix(a.Prefix, f.Type())
		return Val{K: VAddr, A: a, GoT: v.Type()}
	case VAddr:
		// nested struct field: extend the path
		a := &Addr{Prefix: base.A.Prefix + "." + f.Name(), Ref: base.A.Ref, Idx: base.A.Idx, T: f.Type()}
		x.registerPrefix(a.Prefix, f.Type())
		return Val{K: VAddr, A: a, GoT: v.Type()}
	}
	panic("fieldAddr on " + base.String())
}

func (x *Exec) indexAddr(st *State, fr *Frame, v *ssa.IndexAddr) Val {
	base := x.val(fr, v.X)
	idx := x.val(fr, v.Index).T
	switch base.K {
	case VSlice:
		et := base.GoT.Underlying().(*types.Slice).Elem()
		inb := And(Ge(idx, IntT(0)), Lt(idx, base.Len))
		if x.nopanicActive(fr) {
			x.oblige(st, x.obName(fr, "panic."+x.siteName(fr.Fn, v)), inb, "prove")
		}
		st.assume(inb)
		ix := x.idxTerm(base.Off, idx)
		a := &Addr{Prefix: elemPrefix(et), Ref: base.Ref, Idx: &ix, T: et}
		x.registerElemPrefix(a.Prefix, et)
		return Val{K: VAddr, A: a, GoT: v.Type()}
	}
	if pt, ok := v.X.Type().Underlying().(*types.Pointer); ok && base.K == VScalar {
		if at, ok := pt.Elem().Underlying().(*types.Array); ok {
			inb := And(Ge(idx, IntT(0)), Lt(idx, IntT(at.Len())))
			if x.nopanicActive(fr) && !isLit(inb, "true") {
				x.oblige(st, x.obName(fr, "panic."+x.siteName(fr.Fn, v)), inb, "prove")
			}
			st.assume(inb)
			ix := idx
			a := &Addr{Prefix: elemPrefix(at.Elem()), Ref: base.T, Idx: &ix, T: at.Elem()}
			x.registerElemPrefix(a.Prefix, at.Elem())
			return Val{K: VAddr, A: a, GoT: v.Type()}
		}
	}
	panic("indexAddr on unsupported base " + v.X.Type().String())
}

func (x *Exec) index(st *State, fr *Frame, v *ssa.Index) Val {
	base := x.val(fr, v.X)
	idx := x.val(fr, v.Index).T
	if base.K == VScalar && base.T.Sort == SStr {
		inb := And(Ge(idx, IntT(0)), Lt(idx, StrLen(base.T)))
		if x.nopanicActive(fr) {
			x.oblige(st, x.obName(fr, "panic."+x.siteName(fr.Fn, v)), inb, "prove")
		}
		st.assume(inb)
		return scalar(app("str.to_code", SInt, app("str.at", SStr, base.T, idx)), v.Type())
	}
	panic("index on unsupported base " + v.X.Type().String())
}

func (x *Exec) load(st *State, fr *Frame, p Val, pt types.Type) Val {
	switch p.K {
	case VAddr:
		return x.loadAddr(st, p.A)
	case VScalar:
		et := pt.Underlying().(*types.Pointer).Elem()
		st.assume(Neq(p.T, IntT(0)))
		if isStructVal(et) {
			return x.loadStruct(st, et, p.T)
		}
		return x.loadAddr(st, &Addr{Prefix: cellPrefix(et), Ref: p.T, T: et})
	}
	panic("load through " + p.String())
}

func (x *Exec) loadAddr(st *State, a *Addr) Val {
	if strings.HasPrefix(a.Prefix, "G!") {
		return x.loadGlobal(st, a)
	}
	if isStructVal(a.T) {
		// struct stored inline under a path prefix
		s := a.T.Underlying().(*types.Struct)
		v := Val{K: VStruct, GoT: a.T}
		for i := 0; i < s.NumFields(); i++ {
			f := s.Field(i)
			sub := &Addr{Prefix: a.Prefix + "." + f.Name(), Ref: a.Ref, Idx: a.Idx, T: f.Type()}
			x.registerPrefix(sub.Prefix, f.Type())
			v.Parts = append(v.Parts, x.loadAddr(st, sub))
		}
		return v
	}
	if a.Idx != nil {
		x.registerElemPrefix(a.Prefix, a.T)
	} else {
		x.registerPrefix(a.Prefix, a.T)
	}
	v := x.loadLoc(st, a)
	x.boundLoadedRef(st, a, v)
	return v
}

// boundLoadedRef: references read from the heap were allocated earlier.
func (x *Exec) boundLoadedRef(st *State, a *Addr, v Val) {
	var r Term
	switch v.K {
	case VScalar:
		if v.T.Sort != SInt {
			return
		}
		switch v.GoT.Underlying().(type) {
		case *types.Pointer, *types.Map, *types.Chan:
			r = v.T
		case *types.Slice:
			r = v.T
		default:
			return
		}
	case VSlice:
		r = v.Ref
	default:
		return
	}
	if _, lit := litInt(r); lit {
		return
	}
	untouched := true
	for _, cp := range comps(a.T) {
		if _, w := st.Heap[a.Prefix+cp.Suffix]; w {
			untouched = false
		}
	}
	_, baseOld := st.Older[a.Ref.S]
	baseEntry := isEntrySymbol(a.Ref.S) || (baseOld && st.Older[a.Ref.S] == 0)
	if untouched && baseEntry {
		st.assume(Le(r, x.entryWM(st)))
		if _, ok := st.Older[r.S]; !ok && !st.Fresh[r.S] {
			st.Older[r.S] = 0
		}
	} else {
		st.assume(Le(r, Add(st.AllocBase, IntT(int64(st.AllocN)))))
		st.markOlder(r)
	}
}

func (x *Exec) entryWM(st *State) Term { return st.WM0 }

func (x *Exec) loadStruct(st *State, t types.Type, r Term) Val {
	s := t.Underlying().(*types.Struct)
	v := Val{K: VStruct, GoT: t}
	for i := 0; i < s.NumFields(); i++ {
		f := s.Field(i)
		a := &Addr{Prefix: fieldPrefix(t, f.Name()), Ref: r, T: f.Type()}
		v.Parts = append(v.Parts, x.loadAddr(st, a))
	}
	return v
}

func (x *Exec) storeAddr(st *State, a *Addr, v Val) {
	if strings.HasPrefix(a.Prefix, "G!") {
		x.note(x.Outside, "store to global "+a.Prefix)
		return
	}
	if isStructVal(a.T) {
		s := a.T.Underlying().(*types.Struct)
		for i := 0; i < s.NumFields(); i++ {
			f := s.Field(i)
			sub := &Addr{Prefix: a.Prefix + "." + f.Name(), Ref: a.Ref, Idx: a.Idx, T: f.Type()}
			x.registerPrefix(sub.Prefix, f.Type())
			x.storeAddr(st, sub, v.Parts[i])
		}
		return
	}
	if a.Idx != nil {
		x.registerElemPrefix(a.Prefix, a.T)
	} else {
		x.registerPrefix(a.Prefix, a.T)
	}
	x.storeLoc(st, a, v)
}

func (x *Exec) store(st *State, fr *Frame, p Val, v Val) {
	switch p.K {
	case VAddr:
		x.storeAddr(st, p.A, v)
		return
	case VScalar:
		et := p.GoT.Underlying().(*types.Pointer).Elem()
		st.assume(Neq(p.T, IntT(0)))
		if isStructVal(et) {
			s := et.Underlying().(*types.Struct)
			for i := 0; i < s.NumFields(); i++ {
				f := s.Field(i)
				a := &Addr{Prefix: fieldPrefix(et, f.Name()), Ref: p.T, T: f.Type()}
				x.storeAddr(st, a, v.Parts[i])
			}
			return
		}
		x.storeAddr(st, &Addr{Prefix: cellPrefix(et), Ref: p.T, T: et}, v)
		return
	}
	panic("store through " + p.String())
}

func (x *Exec) unop(st *State, fr *Frame, v *ssa.UnOp) Val {
	xv := x.val(fr, v.X)
	switch v.Op {
	case token.MUL:
		if xv.K == VScalar {
			x.nilCheck(st, fr, xv.T, v)
		}
		r := x.load(st, fr, xv, v.X.Type())
		if r.GoT == nil {
			r.GoT = v.Type()
		}
		return r
	case token.NOT:
		return scalar(Not(xv.T), v.Type())
	case token.SUB:
		return scalar(Sub(IntT(0), xv.T), v.Type())
	case token.ARROW:
		x.note(x.Assumed, "channel receive in "+funcKey(fr.Fn)+": received value arbitrary")
		if v.CommaOk {
			et := v.Type().(*types.Tuple).At(0).Type()
			return Val{K: VTuple, Parts: []Val{x.symValue(st, "recv", et, false), scalar(x.fresh(st, "recvok", SBool), types.Typ[types.Bool])}, GoT: v.Type()}
		}
		return x.symValue(st, "recv", v.Type(), false)
	case token.XOR:
		x.note(x.Outside, "bitwise complement")
		return x.symValue(st, "xor", v.Type(), false)
	}
	panic("unop " + v.Op.String())
}

func (x *Exec) binop(st *State, fr *Frame, v *ssa.BinOp) Val {
	a := x.val(fr, v.X)
	b := x.val(fr, v.Y)
	rt := v.Type()
	bterm := func(t Term) Val { return scalar(t, rt) }
	// string operations
	if a.K == VScalar && a.T.Sort == SStr {
		switch v.Op {
		case token.ADD:
			return bterm(strConcat(a.T, b.T))
		case token.EQL:
			return bterm(Eq(a.T, b.T))
		case token.NEQ:
			return bterm(Neq(a.T, b.T))
		case token.LSS:
			return bterm(app("str.<", SBool, a.T, b.T))
		case token.LEQ:
			return bterm(app("str.<=", SBool, a.T, b.T))
		case token.GTR:
			return bterm(app("str.<", SBool, b.T, a.T))
		case token.GEQ:
			return bterm(app("str.<=", SBool, b.T, a.T))
		}
	}
	if a.K == VScalar && a.T.Sort == SBool {
		switch v.Op {
		case token.EQL:
			return bterm(Eq(a.T, b.T))
		case token.NEQ:
			return bterm(Neq(a.T, b.T))
		case token.AND, token.LAND:
			return bterm(And(a.T, b.T))
		case token.OR, token.LOR:
			return bterm(Or(a.T, b.T))
		}
	}
	if a.K == VSlice || b.K == VSlice {
		// comparison with nil
		var isNil Term
		switch {
		case a.K == VSlice && b.K == VSlice:
			isNil = Eq(a.Ref, b.Ref) // one side is the nil constant
		case a.K == VSlice:
			isNil = Eq(a.Ref, IntT(0))
		default:
			isNil = Eq(b.Ref, IntT(0))
		}
		if v.Op == token.EQL {
			return bterm(isNil)
		}
		return bterm(Not(isNil))
	}
	if a.K == VStruct || b.K == VStruct {
		eq := BoolT(true)
		fa, fb := flatten(a), flatten(b)
		for i := range fa {
			eq = And(eq, Eq(fa[i], fb[i]))
		}
		if v.Op == token.EQL {
			return bterm(eq)
		}
		return bterm(Not(eq))
	}
	at, btm := a.T, b.T
	switch v.Op {
	case token.ADD:
		return bterm(Add(at, btm))
	case token.SUB:
		return bterm(Sub(at, btm))
	case token.MUL:
		return bterm(Mul(at, btm))
	case token.QUO, token.REM:
		if x.nopanicActive(fr) {
			x.oblige(st, x.obName(fr, "panic."+x.siteName(fr.Fn, v)), Neq(btm, IntT(0)), "prove")
		}
		st.assume(Neq(btm, IntT(0)))
		return bterm(goDivRem(v.Op == token.QUO, at, btm))
	case token.EQL:
		return bterm(Eq(at, btm))
	case token.NEQ:
		return bterm(Neq(at, btm))
	case token.LSS:
		return bterm(Lt(at, btm))
	case token.LEQ:
		return bterm(Le(at, btm))
	case token.GTR:
		return bterm(Gt(at, btm))
	case token.GEQ:
		return bterm(Ge(at, btm))
	case token.OR, token.AND, token.XOR, token.SHL, token.SHR, token.AND_NOT:
		// bit operations: constants fold, otherwise uninterpreted
		if xa, ok := litInt(at); ok {
			if xb, ok2 := litInt(btm); ok2 {
				switch v.Op {
				case token.OR:
					return bterm(IntT(xa | xb))
				case token.AND:
					return bterm(IntT(xa & xb))
				case token.XOR:
					return bterm(IntT(xa ^ xb))
				case token.SHL:
					return bterm(IntT(xa << uint(xb)))
				case token.SHR:
					return bterm(IntT(xa >> uint(xb)))
				case token.AND_NOT:
					return bterm(IntT(xa &^ xb))
				}
			}
		}
		x.Reg.DeclareFun("bitop", []string{SInt, SInt, SInt}, SInt)
		return bterm(app("bitop", SInt, IntT(int64(v.Op)), at, btm))
	}
	panic("binop " + v.Op.String())
}

// goDivRem: Go's truncated division on mathematical integers.
func goDivRem(quo bool, a, b Term) Term {
	xa, ok1 := litInt(a)
	xb, ok2 := litInt(b)
	if ok1 && ok2 && xb != 0 {
		if quo {
			return IntT(xa / xb)
		}
		return IntT(xa % xb)
	}
	if xb, ok := litInt(b); ok && xb > 0 {
		// positive constant divisor: truncation towards zero
		q := Ite(Ge(a, IntT(0)), app("div", SInt, a, b), Sub(IntT(0), app("div", SInt, Sub(IntT(0), a), b)))
		if quo {
			return q
		}
		return Sub(a, Mul(b, q))
	}
	// SMT div is floor for positive divisor / euclidean; build truncation
	absA := Ite(Ge(a, IntT(0)), a, Sub(IntT(0), a))
	absB := Ite(Ge(b, IntT(0)), b, Sub(IntT(0), b))
	q := app("div", SInt, absA, absB)
	sameSign := Eq(Ge(a, IntT(0)), Ge(b, IntT(0)))
	tq := Ite(sameSign, q, Sub(IntT(0), q))
	if quo {
		return tq
	}
	return Sub(a, Mul(b, tq))
}

func strConcat(a, b Term) Term {
	if isStrLit(a) && a.S == `""` {
		return b
	}
	if isStrLit(b) && b.S == `""` {
		return a
	}
	return app("str.++", SStr, a, b)
}

func (x *Exec) makeSlice(st *State, fr *Frame, v *ssa.MakeSlice) Val {
	ln := x.val(fr, v.Len).T
	cp := x.val(fr, v.Cap).T
	ok := And(Ge(ln, IntT(0)), Le(ln, cp))
	if x.nopanicActive(fr) {
		x.oblige(st, x.obName(fr, "panic."+x.siteName(fr.Fn, v)), ok, "prove")
	}
	st.assume(ok)
	r := x.alloc(st)
	if isByteSlice(v.Type()) {
		c := x.fresh(st, "bytes", SStr)
		st.assume(Eq(StrLen(c), ln))
		x.writeComp(st, bytesArr, SStr, r, c)
		return scalar(r, v.Type())
	}
	et := v.Type().Underlying().(*types.Slice).Elem()
	x.registerElemPrefix(elemPrefix(et), et)
	if !isOptionSlice(v.Type()) {
		x.zeroRow(st, et, r)
	}
	sv := Val{K: VSlice, GoT: v.Type(), Ref: r, Off: IntT(0), Len: ln, Cap: cp}
	if isOptionSlice(v.Type()) {
		sv.Abs = &OptAbs{Base: IntT(0)}
	}
	return sv
}

func (x *Exec) sliceOp(st *State, fr *Frame, v *ssa.Slice) Val {
	base := x.val(fr, v.X)
	var lo, hi, mx *Term
	get := func(e ssa.Value) *Term {
		if e == nil {
			return nil
		}
		t := x.val(fr, e).T
		return &t
	}
	lo, hi, mx = get(v.Low), get(v.High), get(v.Max)
	site := x.obName(fr, "panic."+x.siteName(fr.Fn, v))
	switch {
	case base.K == VScalar && base.T.Sort == SStr:
		l := IntT(0)
		if lo != nil {
			l = *lo
		}
		h := StrLen(base.T)
		if hi != nil {
			h = *hi
		}
		ok := And(Ge(l, IntT(0)), Le(l, h), Le(h, StrLen(base.T)))
		if x.nopanicActive(fr) {
			x.oblige(st, site, ok, "prove")
		}
		st.assume(ok)
		return scalar(app("str.substr", SStr, base.T, l, Sub(h, l)), v.Type())
	case base.K == VSlice:
		l := IntT(0)
		if lo != nil {
			l = *lo
		}
		h := base.Len
		if hi != nil {
			h = *hi
		}
		m := base.Cap
		if mx != nil {
			m = *mx
		}
		ok := And(Ge(l, IntT(0)), Le(l, h), Le(h, m), Le(m, base.Cap))
		if x.nopanicActive(fr) {
			x.oblige(st, site, ok, "prove")
		}
		st.assume(ok)
		r := Val{K: VSlice, GoT: v.Type(), Ref: base.Ref, Off: Add(base.Off, l), Len: Sub(h, l), Cap: Sub(m, l)}
		if base.Abs != nil {
			if lo == nil && hi == nil {
				r.Abs = base.Abs
			} else if isLit(l, "0") && (hi == nil || h.S == base.Len.S) {
				r.Abs = base.Abs
			} else {
				r.Abs = &OptAbs{Base: x.fresh(st, "subabs", SInt)}
			}
		}
		return r
	case base.K == VScalar && isPtrToArray(v.X.Type()) && isByteSlice(v.Type()):
		if lo != nil || hi != nil {
			x.note(x.Outside, "partial slice of a byte array in "+funcKey(fr.Fn))
		}
		return scalar(base.T, v.Type())
	case base.K == VScalar && isPtrToArray(v.X.Type()):
		at := v.X.Type().Underlying().(*types.Pointer).Elem().Underlying().(*types.Array)
		n := IntT(at.Len())
		l := IntT(0)
		if lo != nil {
			l = *lo
		}
		h := n
		if hi != nil {
			h = *hi
		}
		ok := And(Ge(l, IntT(0)), Le(l, h), Le(h, n))
		if x.nopanicActive(fr) && !isLit(ok, "true") {
			x.oblige(st, site, ok, "prove")
		}
		st.assume(ok)
		r := Val{K: VSlice, GoT: v.Type(), Ref: base.T, Off: l, Len: Sub(h, l), Cap: Sub(n, l)}
		if isOptionSlice(v.Type()) {
			abs := &OptAbs{Base: IntT(0)}
			ln, _ := litInt(r.Len)
			lo0, _ := litInt(l)
			for i := int64(0); i < ln; i++ {
				key := elemPrefix(at.Elem()) + "@" + base.T.S + "#" + IntT(lo0+i).S
				fv, ok := st.Fwd[key]
				if ok && fv.K == VFunc && fv.Fn != nil {
					abs.Apps = append(abs.Apps, OptApp{Fn: fv.Fn, Bind: fv.Bind})
				} else if ok && fv.K == VFunc && isLit(fv.T, "0") {
					// nil option: skipped by GetOpts
				} else {
					abs.Unknown = true
				}
			}
			r.Abs = abs
		}
		return r
	case base.K == VScalar && isByteSlice(v.X.Type()):
		// byte slices are immutable values here; model content by substr
		c := x.bytesContent(st, base.T)
		l := IntT(0)
		if lo != nil {
			l = *lo
		}
		h := StrLen(c)
		if hi != nil {
			h = *hi
		}
		ok := And(Ge(l, IntT(0)), Le(l, h), Le(h, StrLen(c)))
		if x.nopanicActive(fr) {
			x.oblige(st, site, ok, "prove")
		}
		st.assume(ok)
		x.note(x.Assumed, "sub-slicing of []byte in "+funcKey(fr.Fn)+" copies (capacity beyond length ignored)")
		return x.newBytes(st, app("str.substr", SStr, c, l, Sub(h, l)), v.Type())
	}
	panic("slice of " + v.X.Type().String())
}

func (x *Exec) newBytes(st *State, content Term, t types.Type) Val {
	r := x.alloc(st)
	x.writeComp(st, bytesArr, SStr, r, content)
	return scalar(r, t)
}

func (x *Exec) convert(st *State, v Val, from, to types.Type) Val {
	fu, tu := from.Underlying(), to.Underlying()
	fb, fIsB := fu.(*types.Basic)
	tb, tIsB := tu.(*types.Basic)
	switch {
	case fIsB && tIsB:
		if fb.Info()&types.IsString != 0 && tb.Info()&types.IsString != 0 {
			return scalar(v.T, to)
		}
		if fb.Info()&types.IsInteger != 0 && tb.Info()&types.IsString != 0 {
			x.note(x.Outside, "string(int) conversion")
			return scalar(x.fresh(st, "runestr", SStr), to)
		}
		return scalar(v.T, to)
	case fIsB && fb.Info()&types.IsString != 0 && isByteSlice(to):
		return x.newBytes(st, v.T, to)
	case isByteSlice(from) && tIsB && tb.Info()&types.IsString != 0:
		return scalar(x.bytesContent(st, v.T), to)
	}
	// string <-> []rune (or any other slice): re-encoding, not an identity - the result is not modelled
	_, fromSlice := fu.(*types.Slice)
	_, toSlice := tu.(*types.Slice)
	if (fIsB && fb.Info()&types.IsString != 0 && toSlice) || (fromSlice && tIsB && tb.Info()&types.IsString != 0) {
		x.note(x.Outside, "conversion between string and "+typeName(to)+"/"+typeName(from)+" (UTF-8 re-encoding): result arbitrary")
		nv := x.symValue(st, "reenc", to, false)
		x.bumpForVal(st, nv)
		return nv
	}
	v.GoT = to
	return v
}

// ---------------------------------------------------------------- interfaces

func (x *Exec) typeTag(t types.Type) Term {
	name := "tag!" + typeName(t)
	c := x.Reg.DeclareConst(name, SInt)
	x.Reg.Axiom("tagpos:"+name, Gt(c, IntT(0)).S)
	if _, ok := tagTypes[name]; !ok {
		tagTypes[name] = t
		for pn, it := range implPreds {
			x.implAxiom(pn, it, name, t)
		}
	}
	// reflect-based nil test (nodeenrollment.IsNil): kinds whose nil value is a nil payload
	x.ufun("nilPayloadKind", []string{SInt}, SBool)
	switch t.Underlying().(type) {
	case *types.Pointer, *types.Map, *types.Slice, *types.Chan, *types.Signature, *types.Interface:
		x.Reg.Axiom("nilkind:"+name, app("nilPayloadKind", SBool, c).S)
	default:
		x.Reg.Axiom("nilkind:"+name, Not(app("nilPayloadKind", SBool, c)).S)
	}
	defer x.declareTagDistinct2(t)
	// distinctness: tags are numbered lazily
	return c
}

// Which tagged concrete types implement which interfaces is decided by go/types
// and stated as axioms (for every pair of a declared type tag and a declared
// implements-predicate).
var tagTypes = map[string]types.Type{}
var implPreds = map[string]*types.Interface{}

func (x *Exec) implAxiom(pn string, it *types.Interface, tagName string, t types.Type) {
	if _, isIface := t.Underlying().(*types.Interface); isIface {
		return
	}
	f := app(sym(pn), SBool, Term{sym(tagName), SInt})
	if !types.Implements(t, it) {
		f = Not(f)
	}
	x.Reg.Axiom("impl:"+pn+":"+tagName, f.S)
}

func (x *Exec) noteImplPred(pn string, it *types.Interface) {
	if _, ok := implPreds[pn]; ok {
		return
	}
	implPreds[pn] = it
	for tn, t := range tagTypes {
		x.implAxiom(pn, it, tn, t)
	}
}

func (x *Exec) strboxDecl() {
	x.ufun("strbox", []string{SStr}, SInt)
	x.ufun("strunbox", []string{SInt}, SStr)
	x.Reg.Axiom("strboxRT", "(forall ((s String)) (! (and (= (strunbox (strbox s)) s) (> (strbox s) 0)) :pattern ((strbox s))))")
}

func (x *Exec) declIfaceFns() {
	x.Reg.DeclareFun("dyntag", []string{SInt}, SInt)
	x.Reg.DeclareFun("payl", []string{SInt}, SInt)
	x.Reg.DeclareFun("mkif", []string{SInt, SInt}, SInt)
	x.Reg.Axiom("mkif1", "(forall ((t Int) (p Int)) (! (and (= (dyntag (mkif t p)) t) (= (payl (mkif t p)) p) (=> (> t 0) (> (mkif t p) 0))) :pattern ((mkif t p))))")
	x.Reg.Axiom("dyntag0", "(= (dyntag 0) 0)")
	x.Reg.Axiom("dyntagpos", "(forall ((i Int)) (! (=> (> i 0) (> (dyntag i) 0)) :pattern ((dyntag i))))")
}

func (x *Exec) makeInterface(st *State, v Val, from, to types.Type) Val {
	x.declIfaceFns()
	tag := x.typeTag(from)
	x.declareTagDistinct(from)
	var payload Term
	switch v.K {
	case VScalar:
		if v.T.Sort == SInt {
			payload = v.T
		}
		if v.T.Sort == SStr {
			// strings are boxed injectively, so that equal strings give equal interface values
			x.strboxDecl()
			payload = app("strbox", SInt, v.T)
		}
	case VFunc, VIface:
		payload = v.T
	}
	if payload.S == "" {
		payload = x.fresh(st, "box", SInt)
	}
	id := app("mkif", SInt, tag, payload)
	if typeName(from) == "util/temperror.tempError" {
		st.assume(x.errPred("isTemporary", id))
	}
	if tn := typeName(from); tn == "types.DuplicateRecordError" || tn == "*types.DuplicateRecordError" {
		// errors.As(err, &DuplicateRecordError{}) / (&*DuplicateRecordError) find it
		st.assume(x.errPred("isDuplicate", id))
	}
	pv := v
	return Val{K: VIface, T: id, GoT: to, Dyn: from, Payload: &pv}
}

// closureReg: closure identity term -> function and bindings (static information of the run)
var closureReg = map[string]Val{}

var tagOrder []string

func (x *Exec) declareTagDistinct2(t types.Type) {
	name := "tag!" + typeName(t)
	for _, o := range tagOrder {
		if o == name {
			return
		}
	}
	for _, o := range tagOrder {
		x.Reg.Axiom("tagne:"+o+":"+name, "(not (= "+sym(o)+" "+sym(name)+"))")
	}
	tagOrder = append(tagOrder, name)
}

func (x *Exec) declareTagDistinct(t types.Type) {
	x.typeTag(t)
	name := "tag!" + typeName(t)
	for _, o := range tagOrder {
		if o == name {
			return
		}
	}
	for _, o := range tagOrder {
		x.Reg.Axiom("tagne:"+o+":"+name, "(not (= "+sym(o)+" "+sym(name)+"))")
	}
	tagOrder = append(tagOrder, name)
}

func (x *Exec) typeAssert(st *State, fr *Frame, v *ssa.TypeAssert) []*State {
	x.declIfaceFns()
	xv := x.val(fr, v.X)
	target := v.AssertedType
	_, targetIsIface := target.Underlying().(*types.Interface)
	var okT Term
	var res Val
	if xv.Dyn != nil {
		// statically known dynamic type
		var ok bool
		if targetIsIface {
			ok = types.Implements(xv.Dyn, target.Underlying().(*types.Interface))
		} else {
			ok = types.Identical(xv.Dyn, target)
		}
		okT = BoolT(ok)
		if ok {
			if targetIsIface {
				res = xv
				res.GoT = target
			} else {
				res = *xv.Payload
				res.GoT = target
			}
		} else {
			res = zeroVal(target)
		}
	} else {
		if targetIsIface {
			pn := "impl!" + typeName(target)
			x.Reg.DeclareFun(pn, []string{SInt}, SBool)
			x.noteImplPred(pn, target.Underlying().(*types.Interface))
			okT = And(Neq(xv.T, IntT(0)), app(sym(pn), SBool, app("dyntag", SInt, xv.T)))
			res = Val{K: VIface, T: xv.T, GoT: target}
		} else {
			tag := x.typeTag(target)
			x.declareTagDistinct(target)
			okT = Eq(app("dyntag", SInt, xv.T), tag)
			cs := comps(target)
			if len(cs) == 1 && cs[0].Sort == SStr {
				x.strboxDecl()
				pv, _ := unflatten(target, []Term{app("strunbox", SStr, app("payl", SInt, xv.T))})
				res = pv
			} else if len(cs) == 1 && cs[0].Sort == SInt {
				pv, _ := unflatten(target, []Term{app("payl", SInt, xv.T)})
				res = pv
				if res.K == VScalar {
					if _, isPtr := target.Underlying().(*types.Pointer); isPtr {
						st.assume(Ge(res.T, IntT(0)))
					}
				}
			} else {
				res = x.symValue(st, "unboxed", target, false)
			}
		}
	}
	if !v.CommaOk {
		if x.nopanicActive(fr) {
			x.oblige(st, x.obName(fr, "panic."+x.siteName(fr.Fn, v)), okT, "prove")
		}
		st.assume(okT)
		x.setVal(fr, v, res)
		return nil
	}
	if isLit(okT, "true") || isLit(okT, "false") {
		x.setVal(fr, v, Val{K: VTuple, Parts: []Val{res, scalar(okT, types.Typ[types.Bool])}, GoT: v.Type()})
		return nil
	}
	// fork so that the failed branch sees the zero value
	alt := st.clone()
	afr := alt.top()
	st.assume(okT)
	x.setVal(fr, v, Val{K: VTuple, Parts: []Val{res, scalar(BoolT(true), types.Typ[types.Bool])}, GoT: v.Type()})
	alt.assume(Not(okT))
	x.setVal(afr, v, Val{K: VTuple, Parts: []Val{zeroVal(target), scalar(BoolT(false), types.Typ[types.Bool])}, GoT: v.Type()})
	return []*State{alt}
}

// ---------------------------------------------------------------- prefix registry (for havoc)

var prefixRegistry = map[string][][2]string{}

func (x *Exec) registerPrefix(prefix string, t types.Type) {
	if _, ok := prefixRegistry[prefix]; ok {
		return
	}
	var out [][2]string
	for _, c := range comps(t) {
		out = append(out, [2]string{prefix + c.Suffix, arrSort(SInt, c.Sort)})
	}
	prefixRegistry[prefix] = out
}

func (x *Exec) registerElemPrefix(prefix string, t types.Type) {
	if _, ok := prefixRegistry[prefix]; ok {
		return
	}
	var out [][2]string
	for _, c := range comps(t) {
		out = append(out, [2]string{prefix + c.Suffix, arrSort(SInt, arrSort(SInt, c.Sort))})
	}
	prefixRegistry[prefix] = out
}

func (x *Ctx) prefixSorts(prefix string) [][2]string {
	if ps, ok := prefixRegistry[prefix]; ok {
		return ps
	}
	// nested paths: collect every registered prefix that extends this one
	var out [][2]string
	for k, ps := range prefixRegistry {
		if strings.HasPrefix(k, prefix+".") {
			out = append(out, ps...)
		}
	}
	if prefix == bytesArr {
		out = append(out, [2]string{bytesArr, arrSort(SInt, SStr)})
	}
	return out
}

// loadGlobal: package-level variables are treated as immutable symbolic
// constants (sentinel errors, rand.Reader, ...).
func (x *Exec) loadGlobal(st *State, a *Addr) Val {
	cs := comps(a.T)
	ts := make([]Term, len(cs))
	for i, cp := range cs {
		ts[i] = x.Reg.DeclareConst(a.Prefix+cp.Suffix, cp.Sort)
		if cp.Sort == SInt {
			x.Reg.Axiom("globnn:"+a.Prefix+cp.Suffix, Ge(ts[i], IntT(0)).S)
		}
	}
	if len(cs) == 0 {
		return Val{K: VStruct, GoT: a.T}
	}
	v, _ := unflatten(a.T, ts)
	if isErrorType(a.T) {
		x.Reg.Axiom("globerr:"+a.Prefix, Gt(ts[0], IntT(0)).S)
		switch a.Prefix {
		case "G!nodeenrollment.ErrNotFound":
			x.Reg.Axiom("errnf", x.errPred("isNotFound", ts[0]).S)
			x.Reg.Axiom("errnf2", Not(x.errPred("isTemporary", ts[0])).S)
			for _, p := range []string{"isCtxErr", "isDuplicate", "isClosed"} {
				x.Reg.Axiom("errnf:"+p, Not(x.errPred(p, ts[0])).S)
			}
		case "G!net.ErrClosed":
			x.Reg.Axiom("errclosed", x.errPred("isClosed", ts[0]).S)
			x.Reg.Axiom("errclosed2", Not(x.errPred("isTemporary", ts[0])).S)
		}
	}
	return v
}

func isPtrToArray(t types.Type) bool {
	p, ok := t.Underlying().(*types.Pointer)
	if !ok {
		return false
	}
	_, ok = p.Elem().Underlying().(*types.Array)
	return ok
}

// nilCheck: dereference of pointer p at instruction ins. Fresh allocations and
// pointers already checked on this path need no obligation.
func (x *Exec) nilCheck(st *State, fr *Frame, p Term, ins ssa.Instruction) {
	if st.Fresh[p.S] || st.NonNil[p.S] {
		return
	}
	if x.nopanicActive(fr) {
		x.oblige(st, x.obName(fr, "panic."+x.siteName(fr.Fn, ins)), Neq(p, IntT(0)), "prove")
	}
	st.assume(Neq(p, IntT(0)))
	st.NonNil[p.S] = true
}

// idxTerm: position off+i inside a backing array. With a symbolic offset the sum
// is wrapped in an uninterpreted function (defined by an axiom) so that
// quantified facts about slice elements can be instantiated by matching.
func (x *Ctx) idxTerm(off, i Term) Term {
	if isLit(off, "0") {
		return i
	}
	if _, ok := litInt(off); ok {
		if _, ok2 := litInt(i); ok2 {
			return Add(off, i)
		}
	}
	x.Reg.DeclareFun("idx", []string{SInt, SInt}, SInt)
	x.Reg.Axiom("idxdef", "(forall ((o Int) (i Int)) (! (= (idx o i) (+ o i)) :pattern ((idx o i))))")
	return app("idx", SInt, off, i)
}

// assumeEntryHeapClosed: well-formedness of the arbitrary entry heap as far as
// the ghost storage is concerned: stored snapshots are entry objects, and the
// reference-valued fields of entry message objects point to entry objects.
func (x *Exec) assumeEntryHeapClosed(st *State) {
	x.assumeHeapClosed(st, st.WM0.S, nil, false)
}

// assumeHeapClosed: every reference held by ghost storage and by the fields of
// storage message objects that exist at watermark wm points to an object that
// exists at wm (objects are only ever allocated above the watermark). With cur
// the current heap arrays are constrained (used after a contracted call that
// replaced ghost storage: the records it created were allocated by the callee,
// below the new watermark), otherwise the entry arrays. kinds == nil: all kinds.
func (x *Exec) assumeHeapClosed(st *State, wm string, kinds map[string]bool, cur bool) {
	arr := func(name, sort string) Term {
		if cur {
			return x.heapCur(st, name, sort)
		}
		return x.heapInit(name, sort)
	}
	for _, k := range []string{"nodeinfo", "nodecreds", "roots", "token"} {
		if kinds != nil && !kinds[k] {
			continue
		}
		a := arr("St!rec!"+k, arrSort(SStr, SInt))
		st.addCmd(fmt.Sprintf("(assert (forall ((id String)) (! (and (>= (select %s id) 0) (<= (select %s id) %s)) :pattern ((select %s id)))))", a.S, a.S, wm, a.S))
	}
	seen := map[string]bool{}
	var visit func(t types.Type, depth int)
	visit = func(t types.Type, depth int) {
		tn := typeName(t)
		if seen[tn] || depth > 3 {
			return
		}
		seen[tn] = true
		for _, f := range protoFields(t) {
			ft := f.Type()
			isRef := false
			suffix := ""
			switch u := ft.Underlying().(type) {
			case *types.Pointer:
				isRef = true
				if mt, ok := isTypesMsgPtr(ft); ok {
					visit(mt, depth+1)
				}
				_ = u
			case *types.Slice:
				isRef = true
				if !isByteSlice(ft) {
					suffix = "!ref"
					if mt, ok := isTypesMsgPtr(u.Elem()); ok {
						visit(mt, depth+1)
					}
				}
			}
			if !isRef {
				continue
			}
			p := fieldPrefix(t, f.Name())
			x.registerPrefix(p, ft)
			a := arr(p+suffix, arrSort(SInt, SInt))
			st.addCmd(fmt.Sprintf("(assert (forall ((r Int)) (! (=> (and (<= 0 r) (<= r %s)) (and (>= (select %s r) 0) (<= (select %s r) %s))) :pattern ((select %s r)))))", wm, a.S, a.S, wm, a.S))
		}
	}
	var tns []string
	for tn, k := range kindOfType {
		if kinds == nil || kinds[k] {
			tns = append(tns, tn)
		}
	}
	sort.Strings(tns)
	for _, tn := range tns {
		if mt := x.lookupNamed(tn); mt != nil {
			visit(mt, 0)
		}
	}
}

func (x *Exec) inLoop(fn *ssa.Function, b *ssa.BasicBlock) bool {
	for _, h := range x.loops(fn).headers {
		if h.body[b.Index] {
			return true
		}
	}
	return false
}

var feasCount, feasPruned int

// feasible: false only when the solver proves the path condition plus cond unsatisfiable.
func (x *Exec) feasible(st *State, cond Term) bool {
	feasCount++
	lines := st.Cmds.lines()
	lines = sliceLines(lines, cond.S)
	all := append(x.Reg.Relevant(lines, cond.S, true), dropQuantified(lines)...)
	var b strings.Builder
	b.WriteString("(set-logic ALL)\n")
	for _, l := range all {
		b.WriteString(l)
		b.WriteByte('\n')
	}
	b.WriteString("(assert " + cond.S + ")\n(check-sat)\n")
	dir := os.TempDir()
	fn := dir + "/govc-feas-" + strconv.Itoa(os.Getpid()) + ".smt2"
	if err := os.WriteFile(fn, []byte(b.String()), 0o644); err != nil {
		return true
	}
	defer os.Remove(fn)
	r, _ := raceSolve(fn, 2, 0, []string{"z3-new"}, false)
	if r.Status == "unsat" {
		feasPruned++
		return false
	}
	return true
}

// notePostEntry: fresh(e) conjuncts of an assumed clause tell the engine that the
// reference was allocated after function entry (used for syntactic disjointness).
func (x *Exec) notePostEntry(st *State, fr *Frame, e Expr) {
	for _, c := range flattenAnd(e) {
		call, ok := c.(ECall)
		if !ok || call.Fn != "fresh" || len(call.Args) != 1 {
			continue
		}
		env, old := x.clauseEnv(st, fr, nil, nil)
		v, err := x.evalExpr(&evalCtx{x: x, st: st, old: old, env: env, fr: fr}, call.Args[0])
		if err != nil {
			continue
		}
		r := v.T
		if v.K == VSlice {
			r = v.Ref
		}
		st.PostEntry[r.S] = true
	}
}

// markOlderVal: the references in v denote objects that exist now.
func (x *Exec) markOlderVal(st *State, v Val) {
	switch v.K {
	case VScalar:
		if v.T.Sort == SInt && v.GoT != nil {
			switch v.GoT.Underlying().(type) {
			case *types.Pointer, *types.Slice, *types.Map, *types.Chan:
				st.markOlder(v.T)
			}
		}
	case VSlice:
		st.markOlder(v.Ref)
	case VStruct, VTuple:
		for _, p := range v.Parts {
			x.markOlderVal(st, p)
		}
	}
}
