package main

import (
	"go/types"
	"sort"

	"golang.org/x/tools/go/ssa"
)

type loopHdr struct {
	header  int
	ordinal int
	body    map[int]bool // block indices in the natural loop (incl. header)
}

type loopInfo struct {
	headers map[int]*loopHdr
}

func (c *Ctx) loops(fn *ssa.Function) *loopInfo {
	if li, ok := c.loopInfo[fn]; ok {
		return li
	}
	li := &loopInfo{headers: map[int]*loopHdr{}}
	for _, b := range fn.Blocks {
		for _, s := range b.Succs {
			if s.Dominates(b) {
				h := li.headers[s.Index]
				if h == nil {
					h = &loopHdr{header: s.Index, body: map[int]bool{s.Index: true}}
					li.headers[s.Index] = h
				}
				// natural loop of back edge b -> s
				stack := []*ssa.BasicBlock{b}
				for len(stack) > 0 {
					n := stack[len(stack)-1]
					stack = stack[:len(stack)-1]
					if h.body[n.Index] {
						continue
					}
					h.body[n.Index] = true
					for _, p := range n.Preds {
						stack = append(stack, p)
					}
				}
			}
		}
	}
	var idx []int
	for i := range li.headers {
		idx = append(idx, i)
	}
	sort.Ints(idx)
	for o, i := range idx {
		li.headers[i].ordinal = o
	}
	c.loopInfo[fn] = li
	return li
}

// loopMods: heap array prefixes that the loop body may write (syntactic, conservative).
func (x *Exec) loopMods(fn *ssa.Function, h *loopHdr) map[string]bool {
	out := map[string]bool{}
	for _, b := range fn.Blocks {
		if !h.body[b.Index] {
			continue
		}
		for _, ins := range b.Instrs {
			x.instrMods(ins, out, 0)
		}
	}
	return out
}

func (x *Exec) fnMods(fn *ssa.Function, depth int) map[string]bool {
	if m, ok := x.modCache[fn]; ok {
		return m
	}
	out := map[string]bool{}
	x.modCache[fn] = out
	if depth > maxInlineDepth {
		return out
	}
	for _, b := range fn.Blocks {
		for _, ins := range b.Instrs {
			x.instrMods(ins, out, depth)
		}
	}
	return out
}

func addrPrefixOf(v ssa.Value) (string, bool) {
	switch a := v.(type) {
	case *ssa.FieldAddr:
		pt := a.X.Type().Underlying().(*types.Pointer).Elem()
		f := pt.Underlying().(*types.Struct).Field(a.Field)
		if inner, ok := a.X.(*ssa.FieldAddr); ok {
			if p, ok2 := addrPrefixOf(inner); ok2 {
				return p + "." + f.Name(), true
			}
		}
		return fieldPrefix(pt, f.Name()), true
	case *ssa.IndexAddr:
		if s, ok := a.X.Type().Underlying().(*types.Slice); ok {
			return elemPrefix(s.Elem()), true
		}
	case *ssa.Alloc:
		et := a.Type().(*types.Pointer).Elem()
		if isStructVal(et) {
			return "F!" + typeName(et) + "!", true
		}
		return cellPrefix(et), true
	case *ssa.FreeVar, *ssa.Parameter, *ssa.Phi, *ssa.Call, *ssa.Extract, *ssa.UnOp:
		if pt, ok := v.Type().Underlying().(*types.Pointer); ok {
			et := pt.Elem()
			if isStructVal(et) {
				return "F!" + typeName(et) + "!", true
			}
			return cellPrefix(et), true
		}
	}
	return "", false
}

func (x *Exec) instrMods(ins ssa.Instruction, out map[string]bool, depth int) {
	switch v := ins.(type) {
	case *ssa.Store:
		if p, ok := addrPrefixOf(v.Addr); ok {
			out[p] = true
		}
	case *ssa.Next:
		if !v.IsString {
			out["IT"] = true
		}
	case *ssa.MapUpdate:
		out["M!"] = true
	case ssa.CallInstruction:
		c := v.Common()
		if b, ok := c.Value.(*ssa.Builtin); ok {
			switch b.Name() {
			case "append", "copy":
				if len(c.Args) > 0 {
					if s, ok := c.Args[0].Type().Underlying().(*types.Slice); ok {
						if isByteSlice(c.Args[0].Type()) {
							out[bytesArr] = true
						} else {
							out[elemPrefix(s.Elem())] = true
						}
					}
				}
			case "delete":
				out["M!"] = true
			}
			return
		}
		name := calleeName(c)
		if ct := x.CS.ByKey[name]; ct != nil {
			for _, m := range x.contractModPrefixes(ct, c) {
				out[m] = true
			}
			return
		}
		if eff, ok := intrinsicEffects[name]; ok {
			for _, e := range eff(c) {
				out[e] = true
			}
			return
		}
		if _, ok := intrinsics[name]; ok {
			return
		}
		if fn := c.StaticCallee(); fn != nil && inModuleFn(fn) && len(fn.Blocks) > 0 {
			for m := range x.fnMods(fn, depth+1) {
				out[m] = true
			}
		}
	}
}
