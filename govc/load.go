package main

import (
	"fmt"
	"go/ast"
	"go/token"
	"go/types"
	"os"
	"sort"
	"strings"

	"golang.org/x/tools/go/packages"
	"golang.org/x/tools/go/ssa"
	"golang.org/x/tools/go/ssa/ssautil"
)

const modulePath = "github.com/hashicorp/nodeenrollment"

type Program struct {
	Fset  *token.FileSet
	Pkgs  []*packages.Package
	Prog  *ssa.Program
	Funcs map[string]*ssa.Function // short name -> function
	Repo  string
}

// shortPkg maps a package path to the short prefix used in contract keys.
func shortPkg(path string) string {
	if path == modulePath {
		return "nodeenrollment"
	}
	if strings.HasPrefix(path, modulePath+"/") {
		return strings.TrimPrefix(path, modulePath+"/")
	}
	return path
}

func inModule(pkg *types.Package) bool {
	if pkg == nil {
		return false
	}
	p := pkg.Path()
	return p == modulePath || strings.HasPrefix(p, modulePath+"/")
}

// funcKey gives the contract key of a function: <shortpkg>.<Name>, methods as
// <shortpkg>.(*T).M or <shortpkg>.(T).M, closures as <parent>$n.
func funcKey(fn *ssa.Function) string {
	if fn.Parent() != nil {
		// closure: parent key + suffix of own name after parent's name
		pk := funcKey(fn.Parent())
		name := fn.Name()
		pn := fn.Parent().Name()
		if strings.HasPrefix(name, pn) {
			return pk + name[len(pn):]
		}
		return pk + "$" + name
	}
	pkgPath := ""
	if fn.Pkg != nil {
		pkgPath = fn.Pkg.Pkg.Path()
	} else if fn.Object() != nil && fn.Object().Pkg() != nil {
		pkgPath = fn.Object().Pkg().Path()
	}
	sp := shortPkg(pkgPath)
	if recv := fn.Signature.Recv(); recv != nil {
		rt := recv.Type()
		ptr := false
		if p, ok := rt.(*types.Pointer); ok {
			rt = p.Elem()
			ptr = true
		}
		tn := rt.String()
		if n, ok := rt.(*types.Named); ok {
			tn = n.Obj().Name()
		}
		if ptr {
			return sp + ".(*" + tn + ")." + fn.Name()
		}
		return sp + ".(" + tn + ")." + fn.Name()
	}
	return sp + "." + fn.Name()
}

func loadProgram(repo string) (*Program, error) {
	fset := token.NewFileSet()
	cfg := &packages.Config{
		Mode: packages.NeedName | packages.NeedFiles | packages.NeedCompiledGoFiles | packages.NeedImports |
			packages.NeedDeps | packages.NeedTypes | packages.NeedSyntax | packages.NeedTypesInfo | packages.NeedTypesSizes | packages.NeedModule,
		Dir:        repo,
		Fset:       fset,
		BuildFlags: []string{"-tags=verif", "-mod=mod"},
		Env:        append(os.Environ(), "GOFLAGS=-mod=mod", "GOPROXY=off", "GOSUMDB=off", "GOTOOLCHAIN=local"),
	}
	pkgs, err := packages.Load(cfg, "./...")
	if err != nil {
		return nil, err
	}
	nerr := 0
	packages.Visit(pkgs, nil, func(p *packages.Package) {
		for _, e := range p.Errors {
			if nerr < 10 {
				fmt.Fprintf(os.Stderr, "load error: %s: %v\n", p.PkgPath, e)
			}
			nerr++
		}
	})
	if nerr > 0 {
		return nil, fmt.Errorf("%d package load errors (does /repo still compile with -tags verif?)", nerr)
	}
	prog, _ := ssautil.AllPackages(pkgs, ssa.GlobalDebug|ssa.InstantiateGenerics)
	prog.Build()
	p := &Program{Fset: fset, Pkgs: pkgs, Prog: prog, Funcs: map[string]*ssa.Function{}, Repo: repo}
	for fn := range ssautil.AllFunctions(prog) {
		if fn.Pkg == nil && fn.Parent() == nil {
			if fn.Object() == nil || !inModule(fn.Object().Pkg()) {
				continue
			}
		}
		root := fn
		for root.Parent() != nil {
			root = root.Parent()
		}
		var pk *types.Package
		if root.Pkg != nil {
			pk = root.Pkg.Pkg
		} else if root.Object() != nil {
			pk = root.Object().Pkg()
		}
		if !inModule(pk) {
			continue
		}
		if fn.Synthetic != "" && fn.Parent() == nil && !strings.HasPrefix(fn.Synthetic, "package init") {
			// wrappers, bound methods etc: not addressable by contract
			if fn.Synthetic != "" {
				continue
			}
		}
		p.Funcs[funcKey(fn)] = fn
	}
	return p, nil
}

func (p *Program) funcNames() []string {
	var ns []string
	for k := range p.Funcs {
		ns = append(ns, k)
	}
	sort.Strings(ns)
	return ns
}

// contractComments returns the //@ lines of every zz_verif_contracts*.go file
// of the module, with file:line.
type srcLine struct {
	Text string
	File string
	Line int
	Pkg  string
}

func (p *Program) contractLines() []srcLine {
	var out []srcLine
	for _, pkg := range p.Pkgs {
		if pkg.Types == nil || !inModule(pkg.Types) {
			continue
		}
		for _, f := range pkg.Syntax {
			fname := p.Fset.Position(f.Pos()).Filename
			base := fname[strings.LastIndex(fname, "/")+1:]
			if !strings.HasPrefix(base, "zz_verif_") {
				continue
			}
			for _, cg := range f.Comments {
				for _, c := range cg.List {
					out = append(out, commentLines(p.Fset, c, shortPkg(pkg.PkgPath))...)
				}
			}
		}
	}
	sort.SliceStable(out, func(i, j int) bool {
		if out[i].File != out[j].File {
			return out[i].File < out[j].File
		}
		return out[i].Line < out[j].Line
	})
	return out
}

func commentLines(fset *token.FileSet, c *ast.Comment, pkg string) []srcLine {
	pos := fset.Position(c.Pos())
	var out []srcLine
	for i, l := range strings.Split(c.Text, "\n") {
		l = strings.TrimSpace(l)
		if strings.HasPrefix(l, "//@") {
			out = append(out, srcLine{Text: strings.TrimSpace(l[3:]), File: pos.Filename, Line: pos.Line + i, Pkg: pkg})
		} else if strings.HasPrefix(l, "// @") {
			out = append(out, srcLine{Text: strings.TrimSpace(l[4:]), File: pos.Filename, Line: pos.Line + i, Pkg: pkg})
		}
	}
	return out
}
