package main

import (
	"encoding/json"
	"fmt"
	"os"
	"os/exec"
	"path/filepath"

	"sort"
	"strings"
	"sync"
)

// Replay: when an obligation of property P fails, the property-level replay
// tests under <verif>/replay/tests/P/<package dir>/*_test.go are run against
// the real code of the repository under check (injected with `go test
// -overlay`, nothing is written into the repository). The tests state the
// property itself (not the contract) and receive the solver's counter-model
// - the values of the function's parameters, where the solver gave one - in
// the environment variable VERIF_MODEL (JSON), which they use as additional
// inputs. A failing test is a reproduced violation on the real code.

type replayRun struct {
	Ran      bool
	Failed   bool
	Output   string
	Files    []string
	Cmds     []string
	FailedIn []string
}

var (
	replayMu    sync.Mutex
	replayCache = map[string]*replayRun{}
)

// parseModel extracts the scalar parameter values (symbols p!name~N) of a solver model.
func parseModel(model string) map[string]string {
	out := map[string]string{}
	// normalise: one definition per chunk
	parts := strings.Split(model, "(define-fun ")
	for _, p := range parts[1:] {
		p = strings.TrimSpace(p)
		f := strings.Fields(p)
		if len(f) < 4 {
			continue
		}
		name := strings.Trim(f[0], "|")
		if f[1] != "()" {
			continue
		}
		sort := f[2]
		if sort != "Int" && sort != "String" && sort != "Bool" {
			continue
		}
		i := strings.Index(p, sort)
		val := strings.TrimSpace(p[i+len(sort):])
		// strip closing parenthesis of the define-fun (and anything after)
		depth := 0
		inStr := false
		end := len(val)
		for k := 0; k < len(val); k++ {
			c := val[k]
			if c == '"' {
				inStr = !inStr
			}
			if inStr {
				continue
			}
			if c == '(' {
				depth++
			}
			if c == ')' {
				if depth == 0 {
					end = k
					break
				}
				depth--
			}
		}
		val = strings.TrimSpace(val[:end])
		if strings.HasPrefix(name, "p!") {
			if j := strings.LastIndex(name, "~"); j > 0 {
				name = name[:j]
			}
			out[strings.TrimPrefix(name, "p!")] = val
		}
	}
	return out
}

func replayTestDirs(verif, prop string) map[string][]string {
	base := filepath.Join(verif, "replay", "tests", prop)
	out := map[string][]string{}
	filepath.Walk(base, func(path string, info os.FileInfo, err error) error {
		if err != nil || info.IsDir() || !strings.HasSuffix(path, "_test.go") {
			return nil
		}
		rel, _ := filepath.Rel(base, filepath.Dir(path))
		out[rel] = append(out[rel], path)
		return nil
	})
	return out
}

func runReplayTests(verif, repo, prop string, model map[string]string) *replayRun {
	return runOverlayTests(verif, repo, prop, model, "TestVerifReplay")
}

// runOverlayTests runs the tests of the property's test directory whose names match pattern.
func runOverlayTests(verif, repo, prop string, model map[string]string, pattern string) *replayRun {
	rr := &replayRun{}
	dirs := replayTestDirs(verif, prop)
	if len(dirs) == 0 {
		return rr
	}
	rr.Ran = true
	scratch, err := os.MkdirTemp("", "govc-replay-")
	if err != nil {
		rr.Output = err.Error()
		return rr
	}
	defer os.RemoveAll(scratch)
	mj, _ := json.Marshal(model)
	var pkgs []string
	for d := range dirs {
		pkgs = append(pkgs, d)
	}
	sort.Strings(pkgs)
	var out strings.Builder
	for _, d := range pkgs {
		repl := map[string]string{}
		// helpers shared by all properties: replay/tests/_common/_any/*_test.go, with the
		// package clause "package PKG_test" instantiated for the package under test
		if ms, _ := filepath.Glob(filepath.Join(verif, "replay", "tests", "_common", "_any", "*_test.go")); len(ms) > 0 && usesHelpers(dirs[d]) {
			pkg := filepath.Base(d)
			if d == "." {
				pkg = "nodeenrollment"
			}
			for _, m := range ms {
				b, err := os.ReadFile(m)
				if err != nil {
					continue
				}
				inst := filepath.Join(scratch, sanitizeFile(d)+"-"+filepath.Base(m))
				os.WriteFile(inst, []byte(strings.Replace(string(b), "package PKG_test", "package "+pkg+"_test", 1)), 0o644)
				repl[filepath.Join(repo, d, filepath.Base(m))] = inst
				rr.Files = append(rr.Files, m)
			}
		}
		for _, f := range dirs[d] {
			repl[filepath.Join(repo, d, filepath.Base(f))] = f
			rr.Files = append(rr.Files, f)
		}
		ov, _ := json.Marshal(map[string]interface{}{"Replace": repl})
		ovf := filepath.Join(scratch, "ov-"+sanitizeFile(d)+".json")
		os.WriteFile(ovf, ov, 0o644)
		args := []string{"test", "-overlay", ovf, "-vet=off", "-count=1", "-timeout", "300s", "-run", pattern, "./" + d}
		cmd := exec.Command("go", args...)
		cmd.Dir = repo
		cmd.Env = append(os.Environ(), "GOFLAGS=-mod=mod", "GOPROXY=off", "GOSUMDB=off", "GOTOOLCHAIN=local", "VERIF_MODEL="+string(mj))
		b, err := cmd.CombinedOutput()
		rr.Cmds = append(rr.Cmds, "cd "+repo+" && go "+strings.Join(args, " "))
		txt := string(b)
		if len(txt) > 6000 {
			txt = txt[:3000] + "\n...\n" + txt[len(txt)-3000:]
		}
		out.WriteString("== ./" + d + "\n" + txt + "\n")
		if err != nil && strings.Contains(string(b), "--- FAIL") {
			rr.Failed = true
			rr.FailedIn = append(rr.FailedIn, d)
		}
	}
	rr.Output = out.String()
	return rr
}

// tryReplay runs the replay tests of the property once per check run and
// records the outcome in the replay file of the failed obligation.
func tryReplay(verif, repo, prop string, r *obResult, replayPath string) bool {
	replayMu.Lock()
	rr, ok := replayCache[prop]
	if !ok {
		rr = runReplayTests(verif, repo, prop, parseModel(r.Model))
		replayCache[prop] = rr
	}
	replayMu.Unlock()
	b, err := os.ReadFile(replayPath)
	if err != nil {
		return false
	}
	var m map[string]interface{}
	if json.Unmarshal(b, &m) != nil {
		return false
	}
	m["solver_model_parameters"] = parseModel(r.Model)
	if !rr.Ran {
		m["replay_note"] = "no replay test exists for this property"
	} else {
		m["replay_test_files"] = rr.Files
		m["replay_cmds"] = rr.Cmds
		m["replay_output"] = rr.Output
		m["replayed_on_code"] = rr.Failed
		if rr.Failed {
			m["replay_note"] = "the property-level replay tests FAIL on the real code of " + repo + " (packages " + strings.Join(rr.FailedIn, ", ") + "): the violation is reproduced"
		} else {
			m["replay_note"] = "the property-level replay tests pass on the real code: no failing input found for this obligation"
		}
	}
	nb, _ := json.MarshalIndent(m, "", " ")
	os.WriteFile(replayPath, nb, 0o644)
	return rr.Failed
}

// cmdReplay re-runs the replay tests recorded in a replay file.
func cmdReplay(args []string) int {
	if len(args) < 2 || args[0] != "-file" {
		fmt.Fprintln(os.Stderr, "usage: govc replay -file <path>")
		return 2
	}
	b, err := os.ReadFile(args[1])
	if err != nil {
		fmt.Fprintln(os.Stderr, err)
		return 2
	}
	var m map[string]interface{}
	json.Unmarshal(b, &m)
	prop, _ := m["property"].(string)
	verif := envOr("VERIF_DIR", "/verif")
	repo := envOr("VERIF_REPO", "/repo")
	model := map[string]string{}
	if mp, ok := m["solver_model_parameters"].(map[string]interface{}); ok {
		for k, v := range mp {
			model[k] = fmt.Sprint(v)
		}
	}
	rr := runReplayTests(verif, repo, prop, model)
	fmt.Printf("obligation: %v\nstatus: %v\n", m["obligation"], m["status"])
	if !rr.Ran {
		fmt.Println("no replay test exists for property", prop)
		return 0
	}
	fmt.Println(rr.Output)
	if rr.Failed {
		fmt.Printf("VIOLATION property=%s replay=%s\n", prop, args[1])
		return 1
	}
	fmt.Println("replay tests pass on", repo)
	return 0
}

// usesHelpers: a test file opts into the shared helpers by mentioning one of them (prefix vr).
func usesHelpers(files []string) bool {
	for _, f := range files {
		if b, err := os.ReadFile(f); err == nil && strings.Contains(string(b), "vrNew(") || strings.Contains(string(b), "vrServer(") || strings.Contains(string(b), "vrFreshNode(") {
			return true
		}
	}
	return false
}

// Bounded stand-ins: tests named TestVerifBounded* in the property's test
// directory check, on every run, code that is not under contract. They are
// labelled bounded in the evidence and never counted as proved.
func hasBounded(verif, prop string) bool {
	for _, fs := range replayTestDirs(verif, prop) {
		for _, f := range fs {
			if b, err := os.ReadFile(f); err == nil && strings.Contains(string(b), "func TestVerifBounded") {
				return true
			}
		}
	}
	return false
}
