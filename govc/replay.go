package main

// tryReplay instantiates a replay template for the failed obligation, if one
// exists, and runs it against the real code. Returns true when the violation
// was reproduced on the real code.
func tryReplay(verif, repo, prop string, r *obResult, replayPath string) bool {
	return false
}
