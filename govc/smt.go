package main

import (
	"bytes"
	"context"
	"fmt"
	"os"
	"os/exec"
	"path/filepath"
	"sort"
	"strconv"
	"strings"
	"sync"
	"time"
)

// Term is an SMT-LIB term (text) with its sort (text).
type Term struct {
	S    string
	Sort string
}

const (
	SInt  = "Int"
	SBool = "Bool"
	SStr  = "String"
)

func arrSort(idx, elem string) string { return "(Array " + idx + " " + elem + ")" }

func IntT(n int64) Term {
	if n < 0 {
		return Term{"(- " + strconv.FormatInt(-n, 10) + ")", SInt}
	}
	return Term{strconv.FormatInt(n, 10), SInt}
}
func BoolT(b bool) Term {
	if b {
		return Term{"true", SBool}
	}
	return Term{"false", SBool}
}

// smtString renders a Go string as an SMT-LIB 2.6 string literal.
func smtString(s string) string {
	var b strings.Builder
	b.WriteByte('"')
	for i := 0; i < len(s); i++ {
		c := s[i]
		switch {
		case c == '"':
			b.WriteString(`""`)
		case c == '\\':
			b.WriteString(`\u{5c}`)
		case c >= 0x20 && c < 0x7f:
			b.WriteByte(c)
		default:
			fmt.Fprintf(&b, `\u{%x}`, c)
		}
	}
	b.WriteByte('"')
	return b.String()
}
func StrT(s string) Term { return Term{smtString(s), SStr} }

func app(op string, sort string, args ...Term) Term {
	var b strings.Builder
	b.WriteByte('(')
	b.WriteString(op)
	for _, a := range args {
		b.WriteByte(' ')
		b.WriteString(a.S)
	}
	b.WriteByte(')')
	return Term{b.String(), sort}
}

func isLit(t Term, v string) bool { return t.S == v }

func And(ts ...Term) Term {
	var keep []Term
	for _, t := range ts {
		if isLit(t, "true") {
			continue
		}
		if isLit(t, "false") {
			return BoolT(false)
		}
		keep = append(keep, t)
	}
	switch len(keep) {
	case 0:
		return BoolT(true)
	case 1:
		return keep[0]
	}
	return app("and", SBool, keep...)
}
func Or(ts ...Term) Term {
	var keep []Term
	for _, t := range ts {
		if isLit(t, "false") {
			continue
		}
		if isLit(t, "true") {
			return BoolT(true)
		}
		keep = append(keep, t)
	}
	switch len(keep) {
	case 0:
		return BoolT(false)
	case 1:
		return keep[0]
	}
	return app("or", SBool, keep...)
}
func Not(t Term) Term {
	switch {
	case isLit(t, "true"):
		return BoolT(false)
	case isLit(t, "false"):
		return BoolT(true)
	case strings.HasPrefix(t.S, "(not ") && balanced(t.S[5:len(t.S)-1]):
		return Term{t.S[5 : len(t.S)-1], SBool}
	}
	return app("not", SBool, t)
}
func balanced(s string) bool {
	d := 0
	inStr := false
	for i := 0; i < len(s); i++ {
		c := s[i]
		if inStr {
			if c == '"' {
				inStr = false
			}
			continue
		}
		switch c {
		case '"':
			inStr = true
		case '(':
			d++
		case ')':
			d--
			if d < 0 {
				return false
			}
		case ' ':
			if d == 0 {
				return false
			}
		}
	}
	return d == 0
}
func Implies(a, b Term) Term {
	if isLit(a, "true") {
		return b
	}
	if isLit(a, "false") || isLit(b, "true") {
		return BoolT(true)
	}
	return app("=>", SBool, a, b)
}
func Eq(a, b Term) Term {
	if a.S == b.S {
		return BoolT(true)
	}
	if a.Sort == SInt && b.Sort == SInt {
		if x, ok := litInt(a); ok {
			if y, ok2 := litInt(b); ok2 {
				return BoolT(x == y)
			}
		}
	}
	if a.Sort == SBool {
		if isLit(b, "true") {
			return a
		}
		if isLit(a, "true") {
			return b
		}
		if isLit(b, "false") {
			return Not(a)
		}
		if isLit(a, "false") {
			return Not(b)
		}
	}
	if a.Sort == SStr && b.Sort == SStr && isStrLit(a) && isStrLit(b) {
		return BoolT(a.S == b.S)
	}
	return app("=", SBool, a, b)
}
func isStrLit(t Term) bool { return strings.HasPrefix(t.S, `"`) }
func Neq(a, b Term) Term   { return Not(Eq(a, b)) }
func Ite(c, a, b Term) Term {
	if isLit(c, "true") {
		return a
	}
	if isLit(c, "false") {
		return b
	}
	if a.S == b.S {
		return a
	}
	return app("ite", a.Sort, c, a, b)
}
func litInt(t Term) (int64, bool) {
	if t.Sort != SInt {
		return 0, false
	}
	s := t.S
	if strings.HasPrefix(s, "(- ") && strings.HasSuffix(s, ")") {
		n, err := strconv.ParseInt(s[3:len(s)-1], 10, 64)
		if err == nil {
			return -n, true
		}
		return 0, false
	}
	n, err := strconv.ParseInt(s, 10, 64)
	return n, err == nil
}
func Add(a, b Term) Term {
	x, ok1 := litInt(a)
	y, ok2 := litInt(b)
	if ok1 && ok2 {
		return IntT(x + y)
	}
	if ok1 && x == 0 {
		return b
	}
	if ok2 && y == 0 {
		return a
	}
	return app("+", SInt, a, b)
}
func Sub(a, b Term) Term {
	x, ok1 := litInt(a)
	y, ok2 := litInt(b)
	if ok1 && ok2 {
		return IntT(x - y)
	}
	if ok2 && y == 0 {
		return a
	}
	return app("-", SInt, a, b)
}
func Mul(a, b Term) Term {
	x, ok1 := litInt(a)
	y, ok2 := litInt(b)
	if ok1 && ok2 {
		return IntT(x * y)
	}
	return app("*", SInt, a, b)
}
func cmpInt(op string, a, b Term) Term {
	x, ok1 := litInt(a)
	y, ok2 := litInt(b)
	if ok1 && ok2 {
		switch op {
		case "<":
			return BoolT(x < y)
		case "<=":
			return BoolT(x <= y)
		case ">":
			return BoolT(x > y)
		case ">=":
			return BoolT(x >= y)
		}
	}
	return app(op, SBool, a, b)
}
func Lt(a, b Term) Term { return cmpInt("<", a, b) }
func Le(a, b Term) Term { return cmpInt("<=", a, b) }
func Gt(a, b Term) Term { return cmpInt(">", a, b) }
func Ge(a, b Term) Term { return cmpInt(">=", a, b) }

func Select(a Term, i Term, elemSort string) Term { return app("select", elemSort, a, i) }
func StoreT(a Term, i Term, v Term) Term           { return app("store", a.Sort, a, i, v) }
func StrLen(s Term) Term {
	if isStrLit(s) && !strings.Contains(s.S, `\u{`) && !strings.Contains(s.S[1:len(s.S)-1], `"`) {
		return IntT(int64(len(s.S) - 2))
	}
	return app("str.len", SInt, s)
}

// sym quotes a symbol.
func sym(name string) string {
	simple := true
	for i := 0; i < len(name); i++ {
		c := name[i]
		if !(c >= 'a' && c <= 'z' || c >= 'A' && c <= 'Z' || c >= '0' && c <= '9' || c == '_' || c == '!' || c == '.' || c == '$' || c == '~' || c == '@' || c == '%') {
			simple = false
			break
		}
	}
	if simple && len(name) > 0 && !(name[0] >= '0' && name[0] <= '9') {
		return name
	}
	name = strings.ReplaceAll(name, "|", "_")
	name = strings.ReplaceAll(name, "\\", "_")
	return "|" + name + "|"
}

// Registry holds global declarations (uninterpreted functions, initial heap
// arrays) and axioms. A query gets the declarations of the symbols it uses
// and the axioms that mention one of them (transitively).
type regEntry struct {
	name  string
	sym   string
	line  string
	axiom bool
	syms  []string
}

type Registry struct {
	mu      sync.Mutex
	names   map[string]bool
	entries []*regEntry
	bySym   map[string]*regEntry
}

func NewRegistry() *Registry { return &Registry{names: map[string]bool{}, bySym: map[string]*regEntry{}} }

func (r *Registry) declare(name, symName, line string, axiom bool) {
	r.mu.Lock()
	defer r.mu.Unlock()
	if r.names[name] {
		return
	}
	r.names[name] = true
	e := &regEntry{name: name, sym: symName, line: line, axiom: axiom}
	if axiom {
		e.syms = symbolsOf(line)
	} else {
		r.bySym[symName] = e
	}
	r.entries = append(r.entries, e)
}
func (r *Registry) DeclareConst(name, sort string) Term {
	r.declare(name, sym(name), "(declare-const "+sym(name)+" "+sort+")", false)
	return Term{sym(name), sort}
}
func (r *Registry) DeclareFun(name string, args []string, ret string) {
	r.declare(name, sym(name), "(declare-fun "+sym(name)+" ("+strings.Join(args, " ")+") "+ret+")", false)
}
func (r *Registry) Axiom(key, body string) {
	r.declare("axiom:"+key, "", "(assert "+body+")", true)
}

// symbolsOf returns the identifiers occurring in SMT text.
func symbolsOf(text string) []string {
	seen := map[string]bool{}
	var out []string
	i := 0
	n := len(text)
	for i < n {
		c := text[i]
		switch {
		case c == '"':
			i++
			for i < n {
				if text[i] == '"' {
					if i+1 < n && text[i+1] == '"' {
						i += 2
						continue
					}
					break
				}
				i++
			}
			i++
		case c == '|':
			j := i + 1
			for j < n && text[j] != '|' {
				j++
			}
			tok := text[i:min(j+1, n)]
			if !seen[tok] {
				seen[tok] = true
				out = append(out, tok)
			}
			i = j + 1
		case c == '(' || c == ')' || c == ' ' || c == '\n' || c == '\t':
			i++
		default:
			j := i
			for j < n && text[j] != '(' && text[j] != ')' && text[j] != ' ' && text[j] != '\n' && text[j] != '\t' {
				j++
			}
			tok := text[i:j]
			if !seen[tok] {
				seen[tok] = true
				out = append(out, tok)
			}
			i = j
		}
	}
	return out
}

// Relevant returns the declarations and axioms needed by a query consisting of
// the given lines (in registry order). dropQuantified omits quantified axioms.
func (r *Registry) Relevant(lines []string, goal string, dropQuantified bool) []string {
	r.mu.Lock()
	defer r.mu.Unlock()
	used := map[string]bool{}
	add := func(text string) bool {
		changed := false
		for _, s := range symbolsOf(text) {
			if !used[s] {
				used[s] = true
				changed = true
			}
		}
		return changed
	}
	for _, l := range lines {
		add(l)
	}
	add(goal)
	inc := map[*regEntry]bool{}
	for changed := true; changed; {
		changed = false
		for _, e := range r.entries {
			if inc[e] || !e.axiom {
				continue
			}
			if dropQuantified && strings.Contains(e.line, "(forall ") {
				continue
			}
			// an axiom is relevant when one of its declared (registry) symbols is used
			hit := false
			for _, s := range e.syms {
				if used[s] && r.bySym[s] != nil {
					hit = true
					break
				}
			}
			if hit {
				inc[e] = true
				if add(e.line) {
					changed = true
				}
			}
		}
	}
	var out []string
	for _, e := range r.entries {
		if e.axiom {
			if inc[e] {
				out = append(out, e.line)
			}
			continue
		}
		if used[e.sym] {
			out = append(out, e.line)
		}
	}
	return out
}

// ---------------------------------------------------------------- solving

type SolveResult struct {
	Status string // unsat | sat | unknown | timeout | error
	Solver string
	Ms     int64
	Model  string
	Raw    string
}

type solverSpec struct {
	name string
	args func(file string, timeoutS int, seed int) []string
}

var solvers = []solverSpec{
	{"z3-new", func(f string, t, seed int) []string {
		return []string{"z3-new", "-T:" + strconv.Itoa(t), "smt.random_seed=" + strconv.Itoa(seed), f}
	}},
	{"cvc5", func(f string, t, seed int) []string {
		return []string{"cvc5", "--strings-exp", "--tlimit=" + strconv.Itoa(t*1000), "--seed=" + strconv.Itoa(seed), "--produce-models", f}
	}},
	// cvc5 without model production preprocesses differently and decides some string/quantifier goals
	// that the model-producing configuration does not (an unsat answer needs no model)
	{"cvc5-nomodel", func(f string, t, seed int) []string {
		return []string{"cvc5", "--strings-exp", "--tlimit=" + strconv.Itoa(t*1000), "--seed=" + strconv.Itoa(seed), f}
	}},
	{"z3", func(f string, t, seed int) []string {
		return []string{"z3", "-T:" + strconv.Itoa(t), "smt.random_seed=" + strconv.Itoa(seed), f}
	}},
}

func runSolver(ctx context.Context, sp solverSpec, file string, timeoutS, seed int) SolveResult {
	args := sp.args(file, timeoutS, seed)
	start := time.Now()
	cctx, cancel := context.WithTimeout(ctx, time.Duration(timeoutS+2)*time.Second)
	defer cancel()
	cmd := exec.CommandContext(cctx, args[0], args[1:]...)
	var out bytes.Buffer
	cmd.Stdout = &out
	cmd.Stderr = &out
	_ = cmd.Run()
	ms := time.Since(start).Milliseconds()
	raw := out.String()
	first := ""
	for _, l := range strings.Split(raw, "\n") {
		l = strings.TrimSpace(l)
		if l == "" || strings.HasPrefix(l, "WARNING") || strings.HasPrefix(l, ";") {
			continue
		}
		first = l
		break
	}
	res := SolveResult{Solver: sp.name, Ms: ms, Raw: raw}
	switch {
	case first == "unsat":
		res.Status = "unsat"
	case first == "sat":
		res.Status = "sat"
		if i := strings.Index(raw, "sat"); i >= 0 {
			res.Model = strings.TrimSpace(raw[i+3:])
		}
	case first == "unknown":
		res.Status = "unknown"
	case first == "timeout" || cctx.Err() != nil:
		res.Status = "timeout"
	default:
		res.Status = "error"
	}
	return res
}

// raceSolve runs the solvers concurrently on one query file; the first
// definite answer (sat / unsat) wins.  order selects which solvers run.
func raceSolve(file string, timeoutS, seed int, order []string, agree bool) (SolveResult, []SolveResult) {
	ctx, cancel := context.WithCancel(context.Background())
	defer cancel()
	ch := make(chan SolveResult, len(solvers))
	n := 0
	for _, name := range order {
		for _, sp := range solvers {
			if sp.name == name {
				n++
				go func(sp solverSpec) { ch <- runSolver(ctx, sp, file, timeoutS, seed) }(sp)
			}
		}
	}
	var all []SolveResult
	var best SolveResult
	best.Status = "unknown"
	definite := 0
	for i := 0; i < n; i++ {
		r := <-ch
		all = append(all, r)
		if r.Status == "sat" || r.Status == "unsat" {
			if definite == 0 {
				best = r
			} else if best.Status != r.Status {
				best.Status = "error"
				best.Raw = "solvers disagree: " + best.Solver + " vs " + r.Solver
			}
			definite++
			if !agree || definite >= 2 {
				cancel()
				break
			}
		} else if definite == 0 {
			if best.Status == "unknown" && best.Solver == "" || r.Status == "timeout" {
				best = r
			}
		}
	}
	return best, all
}

// Query is one solver job.
type Query struct {
	Name   string // obligation name
	Inst   int    // path instance
	Kind   string // prove | cover
	Lines  []string
	Path   *cmdNode
	Goal   Term
	Strs   bool
	Meta   map[string]string
	Result SolveResult
	File   string
}

func writeQuery(dir string, q *Query, withModel bool) (string, error) {
	var b strings.Builder
	b.WriteString("; obligation " + q.Name + " instance " + strconv.Itoa(q.Inst) + " kind " + q.Kind + "\n")
	if withModel {
		b.WriteString("(set-option :produce-models true)\n")
	}
	b.WriteString("(set-logic ALL)\n")
	for _, l := range q.Lines {
		b.WriteString(l)
		b.WriteByte('\n')
	}
	if q.Kind == "cover" {
		b.WriteString("(assert " + q.Goal.S + ")\n")
	} else {
		b.WriteString("(assert (not " + q.Goal.S + "))\n")
	}
	b.WriteString("(check-sat)\n")
	if withModel {
		b.WriteString("(get-model)\n")
	}
	fn := filepath.Join(dir, sanitizeFile(q.Name)+"."+strconv.Itoa(q.Inst)+".smt2")
	return fn, os.WriteFile(fn, []byte(b.String()), 0o644)
}

func sanitizeFile(s string) string {
	var b strings.Builder
	for _, c := range s {
		switch {
		case c >= 'a' && c <= 'z', c >= 'A' && c <= 'Z', c >= '0' && c <= '9', c == '.', c == '-', c == '_', c == '#':
			b.WriteRune(c)
		default:
			b.WriteByte('_')
		}
	}
	r := b.String()
	if len(r) > 180 {
		r = r[:180]
	}
	return r
}

func sortedKeys[V any](m map[string]V) []string {
	ks := make([]string, 0, len(m))
	for k := range m {
		ks = append(ks, k)
	}
	sort.Strings(ks)
	return ks
}
