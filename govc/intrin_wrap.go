package main

import (
	"go/types"
)

// go-kms-wrapping: the Wrapper interface (application-supplied KMS wrappers,
// idealised as an AEAD keyed by the wrapper identity) and the concrete aead
// wrapper used for message encryption.

const wrapPkg = "github.com/hashicorp/go-kms-wrapping/v2"

func (x *Exec) blobType() types.Type { return x.namedType(wrapPkg, "BlobInfo") }

// aadFromOpts finds the additional data passed through wrapping.WithAad among
// variadic options ("" when absent).
func (x *Exec) aadFromOpts(st *State, opts Val) (Term, bool) {
	aad := StrT("")
	vals := x.variadicVals(st, opts)
	if opts.K == VSlice {
		if _, ok := litInt(opts.Len); !ok {
			return aad, false
		}
	}
	for _, v := range vals {
		if v.Tag == "wrapping.WithAad" {
			aad = x.bytesContent(st, v.Bind[0].T)
		} else if v.K == VFunc && isLit(v.T, "0") {
			// nil option
		} else if v.Tag == "" {
			return aad, false
		}
	}
	return aad, true
}

func init() {
	reg(wrapPkg+".WithAad", func(x *Exec, st *State, c *CallCtx) []Outcome {
		id := x.fresh(st, "wopt", SInt)
		st.assume(Gt(id, IntT(0)))
		return one(st, Val{K: VFunc, T: id, GoT: c.ResT.At(0).Type(), Tag: "wrapping.WithAad", Bind: []Val{c.Args[0]}})
	})
	reg(wrapPkg+".WithKeyId", func(x *Exec, st *State, c *CallCtx) []Outcome {
		id := x.fresh(st, "wopt", SInt)
		st.assume(Gt(id, IntT(0)))
		return one(st, Val{K: VFunc, T: id, GoT: c.ResT.At(0).Type(), Tag: "wrapping.WithKeyId", Bind: []Val{c.Args[0]}})
	})
	reg(wrapPkg+"/aead.WithKey", func(x *Exec, st *State, c *CallCtx) []Outcome {
		id := x.fresh(st, "wopt", SInt)
		st.assume(Gt(id, IntT(0)))
		return one(st, Val{K: VFunc, T: id, GoT: c.ResT.At(0).Type(), Tag: "aead.WithKey", Bind: []Val{c.Args[0]}})
	})
	reg(wrapPkg+"/aead.WithRandomReader", func(x *Exec, st *State, c *CallCtx) []Outcome {
		id := x.fresh(st, "wopt", SInt)
		st.assume(Gt(id, IntT(0)))
		return one(st, Val{K: VFunc, T: id, GoT: c.ResT.At(0).Type(), Tag: "aead.WithRandomReader", Bind: []Val{c.Args[0]}})
	})
	// ---- Wrapper interface (KMS)
	wi := "iface:" + wrapPkg + ".Wrapper."
	reg(wi+"KeyId", func(x *Exec, st *State, c *CallCtx) []Outcome {
		fail, fe := x.errFork(st, "wkeyid")
		x.ufun("wKeyId", []string{SInt}, SStr)
		return []Outcome{{St: st, Res: []Val{strV(app("wKeyId", SStr, c.Args[0].T)), nilErr()}}, {St: fail, Res: []Val{strV(StrT("")), fe}}}
	})
	reg(wi+"Encrypt", func(x *Exec, st *State, c *CallCtx) []Outcome {
		declCrypto(x)
		x.ufun("wEncS", []string{SInt, SStr, SStr, SInt}, SStr)
		x.Reg.Axiom("wEncNE", "(forall ((w Int) (p String) (a String) (n Int)) (! (> (str.len (wEncS w p a n)) 0) :pattern ((wEncS w p a n))))")
		x.ufun("wOkS", []string{SInt, SStr, SStr}, SBool)
		x.ufun("wPtS", []string{SInt, SStr, SStr}, SStr)
		x.Reg.Axiom("wRTS", "(forall ((w Int) (p String) (a String) (n Int)) (! (and (wOkS w (wEncS w p a n) a) (= (wPtS w (wEncS w p a n) a) p)) :pattern ((wEncS w p a n))))")
		x.Reg.Axiom("wIntS", "(forall ((w Int) (p String) (a String) (n Int) (w2 Int) (a2 String)) (! (=> (wOkS w2 (wEncS w p a n) a2) (and (= w2 w) (= a2 a))) :pattern ((wOkS w2 (wEncS w p a n) a2))))")
		fail, fe := x.errFork(st, "wencrypt")
		for _, p := range []string{"isNotFound", "isDuplicate"} {
			fail.assume(Not(x.errPred(p, fe.T)))
		}
		pt := c.ResT.At(0).Type()
		aad, known := x.aadFromOpts(st, c.Args[3])
		if !known {
			aad = x.fresh(st, "aad", SStr)
			x.note(x.Assumed, "Wrapper.Encrypt with statically unknown options in "+funcKey(c.Fr.Fn))
		}
		n := x.fresh(st, "wnonce", SInt)
		bt := x.blobType()
		b := x.alloc(st)
		x.zeroStruct(st, bt, b)
		ctf := fieldByName(bt, "Ciphertext")
		ct := x.newBytes(st, app("wEncS", SStr, c.Args[0].T, x.bc(st, c.Args[2]), aad, n), ctf.Type())
		x.storeAddr(st, &Addr{Prefix: fieldPrefix(bt, "Ciphertext"), Ref: b, T: ctf.Type()}, ct)
		return []Outcome{{St: st, Res: []Val{scalar(b, pt), nilErr()}}, {St: fail, Res: []Val{scalar(IntT(0), pt), fe}}}
	})
	reg(wi+"Decrypt", func(x *Exec, st *State, c *CallCtx) []Outcome {
		declCrypto(x)
		x.ufun("wEncS", []string{SInt, SStr, SStr, SInt}, SStr)
		x.Reg.Axiom("wEncNE", "(forall ((w Int) (p String) (a String) (n Int)) (! (> (str.len (wEncS w p a n)) 0) :pattern ((wEncS w p a n))))")
		x.ufun("wOkS", []string{SInt, SStr, SStr}, SBool)
		x.ufun("wPtS", []string{SInt, SStr, SStr}, SStr)
		fail, fe := x.errFork(st, "wdecrypt")
		for _, p := range []string{"isNotFound", "isDuplicate"} {
			fail.assume(Not(x.errPred(p, fe.T)))
		}
		rt := c.ResT.At(0).Type()
		aad, known := x.aadFromOpts(st, c.Args[3])
		if !known {
			aad = x.fresh(st, "aad", SStr)
			x.note(x.Assumed, "Wrapper.Decrypt with statically unknown options in "+funcKey(c.Fr.Fn))
		}
		bt := x.blobType()
		ctf := fieldByName(bt, "Ciphertext")
		blob := c.Args[2].T
		ctv := x.loadAddrPure(st, &Addr{Prefix: fieldPrefix(bt, "Ciphertext"), Ref: blob, T: ctf.Type()})
		ct := x.bytesContent(st, ctv.T)
		okc := app("wOkS", SBool, c.Args[0].T, ct, aad)
		fail.assume(Or(Not(okc), BoolT(true)))
		st.assume(okc)
		out := x.newBytes(st, app("wPtS", SStr, c.Args[0].T, ct, aad), rt)
		return []Outcome{{St: st, Res: []Val{out, nilErr()}}, {St: fail, Res: []Val{scalar(IntT(0), rt), fe}}}
	})
	// ---- concrete aead wrapper
	ap := wrapPkg + "/aead"
	const aeadKeyPrefix = "F!aead.Wrapper!$key"
	reg(ap+".NewWrapper", func(x *Exec, st *State, c *CallCtx) []Outcome {
		r := x.alloc(st)
		x.registerPrefix(aeadKeyPrefix, types.Typ[types.String])
		x.writeComp(st, aeadKeyPrefix, SStr, r, StrT(""))
		return one(st, scalar(r, c.ResT.At(0).Type()))
	})
	reg("(*"+ap+".Wrapper).SetConfig", func(x *Exec, st *State, c *CallCtx) []Outcome {
		fail, fe := x.errFork(st, "setconfig")
		x.registerPrefix(aeadKeyPrefix, types.Typ[types.String])
		vals := x.variadicVals(st, c.Args[2])
		found := false
		for _, v := range vals {
			if v.Tag == "aead.WithKey" {
				k := x.bytesContent(st, v.Bind[0].T)
				x.writeComp(st, aeadKeyPrefix, SStr, c.Args[0].T, k)
				// go-kms-wrapping: SetConfig fails for an AES key of the wrong size
				fail.assume(Neq(StrLen(k), IntT(32)))
				st.assume(Eq(StrLen(k), IntT(32)))
				found = true
			}
		}
		if !found {
			x.writeComp(st, aeadKeyPrefix, SStr, c.Args[0].T, x.fresh(st, "aeadkey", SStr))
			x.note(x.Assumed, "aead SetConfig without a statically visible WithKey option in "+funcKey(c.Fr.Fn))
		}
		rt := c.ResT.At(0).Type()
		return []Outcome{{St: st, Res: []Val{scalar(x.alloc(st), rt), nilErr()}}, {St: fail, Res: []Val{scalar(IntT(0), rt), fe}}}
	})
	reg("(*"+ap+".Wrapper).Encrypt", func(x *Exec, st *State, c *CallCtx) []Outcome {
		declCrypto(x)
		fail, fe := x.errFork(st, "aeadencrypt")
		pt := c.ResT.At(0).Type()
		aad, known := x.aadFromOpts(st, c.Args[3])
		if !known {
			aad = x.fresh(st, "aad", SStr)
			x.note(x.Assumed, "aead Encrypt with statically unknown options in "+funcKey(c.Fr.Fn))
		}
		key := x.readComp(st, aeadKeyPrefix, SStr, c.Args[0].T)
		r := x.fresh(st, "aeadrand", SStr)
		bt := x.blobType()
		b := x.alloc(st)
		x.zeroStruct(st, bt, b)
		ctf := fieldByName(bt, "Ciphertext")
		ct := x.newBytes(st, app("aeadEnc", SStr, key, aad, x.bc(st, c.Args[2]), r), ctf.Type())
		x.storeAddr(st, &Addr{Prefix: fieldPrefix(bt, "Ciphertext"), Ref: b, T: ctf.Type()}, ct)
		return []Outcome{{St: st, Res: []Val{scalar(b, pt), nilErr()}}, {St: fail, Res: []Val{scalar(IntT(0), pt), fe}}}
	})
	reg("(*"+ap+".Wrapper).Decrypt", func(x *Exec, st *State, c *CallCtx) []Outcome {
		declCrypto(x)
		rt := c.ResT.At(0).Type()
		bt := x.blobType()
		ctf := fieldByName(bt, "Ciphertext")
		blob := c.Args[2].T
		var outs []Outcome
		// nil input: error
		if !st.NonNil[blob.S] && !st.Fresh[blob.S] {
			nb := st.clone()
			nb.assume(Eq(blob, IntT(0)))
			ne := x.newErr(nb, "aeadnil")
			outs = append(outs, Outcome{St: nb, Res: []Val{scalar(IntT(0), rt), ne}})
			st.assume(Neq(blob, IntT(0)))
		}
		ctv := x.loadAddrPure(st, &Addr{Prefix: fieldPrefix(bt, "Ciphertext"), Ref: blob, T: ctf.Type()})
		ct := x.bytesContent(st, ctv.T)
		// concrete precondition of go-kms-wrapping v2.0.16 aead.go: in.Ciphertext[:12]
		okLen := Ge(StrLen(ct), IntT(12))
		if x.nopanicActive(c.Fr) {
			x.oblige(st, x.obName(c.Fr, "pre.aead.Decrypt.ivlen."+c.Site), okLen, "prove")
		}
		st.assume(okLen)
		aad, known := x.aadFromOpts(st, c.Args[3])
		if !known {
			aad = x.fresh(st, "aad", SStr)
			x.note(x.Assumed, "aead Decrypt with statically unknown options in "+funcKey(c.Fr.Fn))
		}
		key := x.readComp(st, aeadKeyPrefix, SStr, c.Args[0].T)
		okc := app("aeadOk", SBool, key, aad, ct)
		fail, fe := x.errFork(st, "aeaddecrypt")
		fail.assume(Not(okc))
		st.assume(okc)
		out := x.newBytes(st, app("aeadPt", SStr, key, aad, ct), rt)
		outs = append([]Outcome{{St: st, Res: []Val{out, nilErr()}}, {St: fail, Res: []Val{scalar(IntT(0), rt), fe}}}, outs...)
		return outs
	})
}
