package main

import (
	"fmt"
	"go/types"
	"sort"
	"strings"

	"golang.org/x/tools/go/ssa"
)

type modLoc struct {
	Prefix string // heap prefix (all components) or ghost array name
	Ref    *Term  // nil: whole array
	T      types.Type
	Elem   bool
}

var stKinds = map[string]string{
	"StNodeInfo":  "nodeinfo",
	"StNodeCreds": "nodecreds",
	"StRoots":     "roots",
	"StToken":     "token",
}

// modLocs evaluates the modifies clauses of ct in env (values of the pre-state).
func (x *Exec) modLocs(st *State, old *State, ct *Contract, env map[string]Val) []modLoc {
	var out []modLoc
	c := &evalCtx{x: x, st: old, old: old, env: env}
	for i, m := range ct.Modifies {
		src := ct.ModSrc[i]
		switch e := m.(type) {
		case EIdent:
			if e.Name == "nosharedappend" {
				continue
			}
			if e.Name == "St" {
				for _, k := range []string{"nodeinfo", "nodecreds", "roots", "token"} {
					out = append(out, modLoc{Prefix: "St!" + k})
				}
				continue
			}
			if k, ok := stKinds[e.Name]; ok {
				out = append(out, modLoc{Prefix: "St!" + k})
				continue
			}
			if e.Name == "clock" {
				continue
			}
			if pv, ok := env["&"+e.Name]; ok && pv.K == VScalar {
				// a variable captured by reference (closure): its cell
				if pt, ok := pv.GoT.Underlying().(*types.Pointer); ok {
					r := pv.T
					cp := cellPrefix(pt.Elem())
					x.registerPrefix(cp, pt.Elem())
					out = append(out, modLoc{Prefix: cp, Ref: &r, T: pt.Elem()})
					continue
				}
			}
			x.errorf("%s: modifies %s not understood", ct.Key, src)
		case ESel:
			base, err := x.evalExpr(c, e.X)
			if err != nil {
				x.errorf("%s: modifies %s: %v", ct.Key, src, err)
				continue
			}
			pt, su, ok := derefStruct(base.GoT)
			if !ok {
				x.errorf("%s: modifies %s: not a struct", ct.Key, src)
				continue
			}
			found := false
			for i := 0; i < su.NumFields(); i++ {
				if su.Field(i).Name() == e.Field {
					r := base.T
					out = append(out, modLoc{Prefix: fieldPrefix(pt, e.Field), Ref: &r, T: su.Field(i).Type()})
					x.registerPrefix(fieldPrefix(pt, e.Field), su.Field(i).Type())
					found = true
				}
			}
			if !found {
				x.errorf("%s: modifies %s: no such field", ct.Key, src)
			}
		case ECall:
			args, err := x.evalArgs(c, e.Args)
			if err != nil {
				x.errorf("%s: modifies %s: %v", ct.Key, src, err)
				continue
			}
			switch e.Fn {
			case "fields":
				target := args[0]
				if target.K == VIface {
					if target.Dyn == nil || target.Payload == nil {
						// statically unknown message type: nothing trackable to havoc but the wire ghost
						x.declIfaceFns()
						r := app("payl", SInt, target.T)
						x.registerPrefix(wirePrefix, types.Typ[types.String])
						out = append(out, modLoc{Prefix: wirePrefix, Ref: &r, T: types.Typ[types.String]})
						continue
					}
					pv := *target.Payload
					pv.GoT = target.Dyn
					target = pv
				}
				pt, su, ok := derefStruct(target.GoT)
				if !ok {
					x.errorf("%s: modifies %s: not a struct pointer", ct.Key, src)
					continue
				}
				{
					r := target.T
					x.registerPrefix(wirePrefix, types.Typ[types.String])
					out = append(out, modLoc{Prefix: wirePrefix, Ref: &r, T: types.Typ[types.String]})
				}
				for i := 0; i < su.NumFields(); i++ {
					r := target.T
					p := fieldPrefix(pt, su.Field(i).Name())
					x.registerPrefix(p, su.Field(i).Type())
					out = append(out, modLoc{Prefix: p, Ref: &r, T: su.Field(i).Type()})
				}
			case "elems":
				if args[0].K != VSlice {
					x.errorf("%s: modifies %s: not a slice", ct.Key, src)
					continue
				}
				et := args[0].GoT.Underlying().(*types.Slice).Elem()
				r := args[0].Ref
				x.registerElemPrefix(elemPrefix(et), et)
				out = append(out, modLoc{Prefix: elemPrefix(et), Ref: &r, T: et, Elem: true})
			case "content":
				r := args[0].T
				out = append(out, modLoc{Prefix: bytesArr, Ref: &r})
			case "syncmap":
				// syncmap(m): the contents of sync.Map m
				x.smRegister()
				r := args[0].T
				out = append(out, modLoc{Prefix: "SM", Ref: &r})
			case "tree":
				// tree(t): the contents of radix tree t
				x.rtRegister()
				r := args[0].T
				out = append(out, modLoc{Prefix: "RT", Ref: &r})
			case "alloftype":
				// alloftype("types.NodeInformation"): every object of that struct type
				lit := strings.Trim(args[0].T.S, `"`)
				out = append(out, modLoc{Prefix: "F!" + lit + "!"})
			default:
				x.errorf("%s: modifies %s not understood", ct.Key, src)
			}
		default:
			x.errorf("%s: modifies %s not understood", ct.Key, src)
		}
	}
	return out
}

// applyModifies havocs the callee's frame at a call site.
func (x *Exec) applyModifies(st *State, old *State, ct *Contract, env map[string]Val) {
	for _, m := range x.modLocs(st, old, ct, env) {
		switch {
		case strings.HasPrefix(m.Prefix, "St!"):
			k := strings.TrimPrefix(m.Prefix, "St!")
			x.havocArray(st, "St!has!"+k, arrSort(SStr, SBool))
			x.havocArray(st, "St!rec!"+k, arrSort(SStr, SInt))
			st.Dirty["St!has!"+k] = true
			st.Dirty["St!rec!"+k] = true
		case m.Ref == nil:
			x.havocPrefixAll(st, m.Prefix)
		case m.Prefix == bytesArr:
			f := x.fresh(st, "hvbytes", SStr)
			x.writeComp(st, bytesArr, SStr, *m.Ref, f)
		case m.Prefix == "SM":
			a := x.heapCur(st, smHas, smHasSort)
			x.heapSet(st, smHas, StoreT(a, *m.Ref, x.fresh(st, "hvsmh", arrSort(SInt, SBool))))
			b := x.heapCur(st, smVal, smValSort)
			x.heapSet(st, smVal, StoreT(b, *m.Ref, x.fresh(st, "hvsmv", arrSort(SInt, SInt))))
			st.Dirty[smHas], st.Dirty[smVal] = true, true
		case m.Prefix == "RT":
			x.rtSetHas(st, *m.Ref, x.fresh(st, "hvrth", arrSort(SStr, SBool)))
			x.rtSetVal(st, *m.Ref, x.fresh(st, "hvrtv", arrSort(SStr, SInt)))
		case m.Elem:
			for _, ps := range x.prefixSorts(m.Prefix) {
				inner := ps[1][len("(Array Int ") : len(ps[1])-1]
				row := x.fresh(st, "hvrow", inner)
				a := x.heapCur(st, ps[0], ps[1])
				x.heapSet(st, ps[0], StoreT(a, *m.Ref, row))
				st.Dirty[ps[0]] = true
			}
			x.fwdDropPrefix(st, m.Prefix)
		default:
			v := x.symValue(st, "hv", m.T, false)
			x.bumpForVal(st, v)
			x.storeAddr(st, &Addr{Prefix: m.Prefix, Ref: *m.Ref, T: m.T}, v)
		}
	}
}

func (x *Exec) havocPrefixAll(st *State, prefix string) {
	for k, ps := range prefixRegistry {
		if strings.HasPrefix(k, prefix) {
			for _, p := range ps {
				x.havocArray(st, p[0], p[1])
				st.Dirty[p[0]] = true
			}
		}
	}
	x.fwdDropPrefix(st, prefix)
}

func (x *Exec) contractModPrefixes(ct *Contract, c *ssa.CallCommon) []string {
	var out []string
	for i, m := range ct.Modifies {
		switch e := m.(type) {
		case EIdent:
			if e.Name == "St" {
				out = append(out, "St!")
			} else if k, ok := stKinds[e.Name]; ok {
				out = append(out, "St!has!"+k, "St!rec!"+k)
			}
		case ESel:
			// type of the base is not known syntactically: use the field name on any type
			out = append(out, "field:"+e.Field)
		default:
			_ = i
			out = append(out, "F!")
		}
	}
	return out
}

// checkFrame: every heap array written on this path must agree with its entry
// value on all objects that existed at entry, except at the listed locations.
func (x *Exec) checkFrame(st *State, fr *Frame, ct *Contract, env map[string]Val) {
	if x.Mode == "summary" {
		return
	}
	locs := x.modLocs(st, x.Old, ct, env)
	wm := x.entryWM(st)
	names := make([]string, 0, len(st.Dirty))
	for n := range st.Dirty {
		names = append(names, n)
	}
	sort.Strings(names)
	for _, name := range names {
		cur, ok := st.Heap[name]
		if !ok {
			continue
		}
		if strings.HasPrefix(name, "C!") || strings.HasPrefix(name, "M!") {
			// cells of locals and map internals are only reachable through fresh refs or
			// explicitly shared pointers; captured cells are handled via modifies on demand
			if !x.cellFrameStrict(name) {
				continue
			}
		}
		var sortS string
		for _, pss := range prefixRegistry {
			for _, p := range pss {
				if p[0] == name {
					sortS = p[1]
				}
			}
		}
		if name == bytesArr {
			sortS = arrSort(SInt, SStr)
		}
		init := "H0!" + name
		if o, ok := x.Old.Heap[name]; ok {
			init = o
		} else {
			init = sym(init)
		}
		if cur == init {
			continue
		}
		if strings.HasPrefix(name, "St!") {
			kind := name[strings.LastIndex(name, "!")+1:]
			allowed := false
			for _, l := range locs {
				if l.Prefix == "St!"+kind {
					allowed = true
				}
			}
			if allowed {
				continue
			}
			if sortS == "" {
				if strings.HasPrefix(name, "St!has!") {
					sortS = arrSort(SStr, SBool)
				} else {
					sortS = arrSort(SStr, SInt)
				}
			}
			x.Reg.DeclareConst("H0!"+name, sortS)
			x.oblige(st, x.TopKey+"#frame."+name, Eq(Term{cur, sortS}, Term{init, sortS}), "prove")
			continue
		}
		if sortS == "" {
			continue
		}
		var except []Term
		whole := false
		for _, l := range locs {
			if l.Ref == nil {
				if strings.HasPrefix(name, l.Prefix) {
					whole = true
				}
				continue
			}
			if name == l.Prefix || strings.HasPrefix(name, l.Prefix+"!") || strings.HasPrefix(name, l.Prefix+".") {
				except = append(except, *l.Ref)
			}
		}
		if whole {
			continue
		}
		x.Reg.DeclareConst("H0!"+name, sortS)
		r := Term{"r!frame", SInt}
		conds := []Term{Ge(r, IntT(0)), Le(r, wm)}
		for _, e := range except {
			conds = append(conds, Neq(r, e))
		}
		elemSort := sortS[len("(Array Int ") : len(sortS)-1]
		body := Implies(And(conds...), Eq(Select(Term{cur, sortS}, r, elemSort), Select(Term{init, sortS}, r, elemSort)))
		goal := Term{fmt.Sprintf("(forall ((r!frame Int)) %s)", body.S), SBool}
		x.oblige(st, x.TopKey+"#frame."+name, goal, "prove")
	}
}

// Go maps that existed at entry are part of the frame (writing into a map the caller handed over - e.g. the
// fields of an application's structpb.Struct - is an effect); cells of locals are not (they are reached only
// through fresh references or captured variables listed in modifies clauses).
func (x *Exec) cellFrameStrict(name string) bool { return strings.HasPrefix(name, "M!") }
