package main

import (
	"fmt"
	"go/types"
	"strings"
)

// net / crypto/tls as far as the intercepting listener needs them (trusted).
// The TLS handshake itself is opaque: it may run the GetConfigForClient
// callback (which writes the ClientInfo captured for this connection and may
// use storage), so HandshakeContext havocs ClientInfo objects and the ghost
// storage.

func init() {
	reg("iface:net.Listener.Accept", func(x *Exec, st *State, c *CallCtx) []Outcome {
		fail := st.clone()
		fe := x.newErrAny(fail, "accept")
		fail.Flags["baseAcceptFailed"] = true
		ct := c.ResT.At(0).Type()
		conn := x.symValue(st, "baseconn", ct, false)
		return []Outcome{{St: st, Res: []Val{conn, nilErr()}}, {St: fail, Res: []Val{Val{K: VIface, T: IntT(0), GoT: ct}, fe}}}
	})
	reg("crypto/tls.Server", func(x *Exec, st *State, c *CallCtx) []Outcome {
		return one(st, scalar(x.alloc(st), c.ResT.At(0).Type()))
	})
	reg("crypto/tls.Client", func(x *Exec, st *State, c *CallCtx) []Outcome {
		return one(st, scalar(x.alloc(st), c.ResT.At(0).Type()))
	})
	reg("(*crypto/tls.Conn).HandshakeContext", func(x *Exec, st *State, c *CallCtx) []Outcome {
		// the callback writes the ClientInfo captured for this connection: an object
		// allocated during this call; ClientInfo objects that existed at entry keep their values
		for k, ps := range prefixRegistry {
			if !strings.HasPrefix(k, "F!protocol.ClientInfo!") {
				continue
			}
			for _, p := range ps {
				old := x.heapCur(st, p[0], p[1])
				wasDirty := st.Dirty[p[0]]
				x.havocArray(st, p[0], p[1])
				st.Dirty[p[0]] = wasDirty
				nw := x.heapCur(st, p[0], p[1])
				st.addCmd(fmt.Sprintf("(assert (forall ((r Int)) (! (=> (<= r %s) (= (select %s r) (select %s r))) :pattern ((select %s r)))))", st.WM0.S, nw.S, old.S, nw.S))
			}
		}
		x.fwdDropPrefix(st, "F!protocol.ClientInfo!")
		x.havocStorage(st)
		for _, k := range []string{"nodeinfo", "nodecreds", "roots", "token"} {
			st.Dirty["St!has!"+k] = true
			st.Dirty["St!rec!"+k] = true
		}
		fail := st.clone()
		fe := x.newErrAny(fail, "handshake")
		return []Outcome{{St: st, Res: []Val{nilErr()}}, {St: fail, Res: []Val{fe}}}
	})
	reg("(*crypto/tls.Conn).Close", func(x *Exec, st *State, c *CallCtx) []Outcome {
		fail := st.clone()
		fe := x.newErrAny(fail, "close")
		return []Outcome{{St: st, Res: []Val{nilErr()}}, {St: fail, Res: []Val{fe}}}
	})
	reg("(*crypto/tls.Conn).ConnectionState", func(x *Exec, st *State, c *CallCtx) []Outcome {
		t := c.ResT.At(0).Type()
		v := x.symValue(st, "connstate", t, false)
		x.Reg.DeclareFun("negProto", []string{SInt}, SStr)
		su := t.Underlying().(*types.Struct)
		for i := 0; i < su.NumFields(); i++ {
			if su.Field(i).Name() == "NegotiatedProtocol" {
				v.Parts[i] = strV(app("negProto", SStr, c.Args[0].T))
			}
			if su.Field(i).Name() == "HandshakeComplete" {
				// a function of the connection object (a completed handshake stays completed)
				x.Reg.DeclareFun("hsComplete", []string{SInt}, SBool)
				v.Parts[i] = bval(app("hsComplete", SBool, c.Args[0].T))
			}
		}
		return one(st, v)
	})
}

// (*net.Dialer).DialContext: a new connection object on success (TRUSTED: the network).
func init() {
	reg("(*net.Dialer).DialContext", func(x *Exec, st *State, c *CallCtx) []Outcome {
		fail := st.clone()
		fe := x.newErrAny(fail, "dial")
		ct := c.ResT.At(0).Type()
		obj := x.alloc(st)
		conn := x.ifaceWithPayload(st, ct, nil, obj, "dialconn")
		return []Outcome{{St: st, Res: []Val{conn, nilErr()}}, {St: fail, Res: []Val{Val{K: VIface, T: IntT(0), GoT: ct}, fe}}}
	})
}
