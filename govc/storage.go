package main

import (
	"fmt"
	"go/types"
	"strings"
)

// Ghost storage: per kind K
//   St!has!K : String -> Bool      entry present
//   St!rec!K : String -> Int       reference of an immutable snapshot object
// Well-formedness (assumed for the arbitrary pre-state, preserved by Store):
//   has[id] ==> rec[id].Id == id, rec[id] != nil.

var kindOfType = map[string]string{
	"types.NodeInformation":          "nodeinfo",
	"types.NodeCredentials":          "nodecreds",
	"types.RootCertificates":         "roots",
	"types.ServerLedActivationToken": "token",
}

func msgKind(t types.Type) (string, types.Type, bool) {
	p, ok := t.Underlying().(*types.Pointer)
	if !ok {
		return "", nil, false
	}
	k, ok := kindOfType[typeName(p.Elem())]
	return k, p.Elem(), ok
}

func (x *Exec) stHas(st *State, kind string) Term {
	return x.heapCur(st, "St!has!"+kind, arrSort(SStr, SBool))
}
func (x *Exec) stRec(st *State, kind string) Term {
	return x.heapCur(st, "St!rec!"+kind, arrSort(SStr, SInt))
}

func (x *Exec) stSet(st *State, kind string, id Term, has Term, rec *Term) {
	h := x.stHas(st, kind)
	d := x.define(st, "H!St!has!"+kind, StoreT(h, id, has))
	st.Heap["St!has!"+kind] = d.S
	st.Dirty["St!has!"+kind] = true
	if rec != nil {
		r := x.stRec(st, kind)
		d2 := x.define(st, "H!St!rec!"+kind, StoreT(r, id, *rec))
		st.Heap["St!rec!"+kind] = d2.S
		st.Dirty["St!rec!"+kind] = true
	}
}

func isTypesMsgPtr(t types.Type) (types.Type, bool) {
	p, ok := t.Underlying().(*types.Pointer)
	if !ok {
		return nil, false
	}
	n, ok := p.Elem().(*types.Named)
	if !ok || n.Obj().Pkg() == nil {
		return nil, false
	}
	if n.Obj().Pkg().Path() != modulePath+"/types" {
		return nil, false
	}
	if _, ok := n.Underlying().(*types.Struct); !ok {
		return nil, false
	}
	return p.Elem(), true
}

// protoFields: the exported (wire) fields of a generated message struct.
func protoFields(t types.Type) []*types.Var {
	s := t.Underlying().(*types.Struct)
	var out []*types.Var
	for i := 0; i < s.NumFields(); i++ {
		f := s.Field(i)
		if !f.Exported() {
			continue
		}
		out = append(out, f)
	}
	return out
}

// deepCopy allocates a copy of the message at src (nested module messages are
// copied, leaf values are shared). Returns the new reference (nil stays nil).
func (x *Exec) deepCopy(st *State, t types.Type, src Term, depth int) Term {
	wm := Add(st.AllocBase, IntT(int64(st.AllocN)))
	dst := x.alloc(st)
	x.zeroStruct(st, t, dst)
	for _, f := range protoFields(t) {
		a := &Addr{Prefix: fieldPrefix(t, f.Name()), Ref: src, T: f.Type()}
		v := x.loadAddrPure(st, a)
		x.assumeOlder(st, v, wm)
		if mt, ok := isTypesMsgPtr(f.Type()); ok && depth < 3 {
			inner := x.deepCopy(st, mt, v.T, depth+1)
			v = scalar(Ite(Eq(v.T, IntT(0)), IntT(0), inner), f.Type())
		}
		x.storeAddr(st, &Addr{Prefix: fieldPrefix(t, f.Name()), Ref: dst, T: f.Type()}, v)
	}
	return dst
}

// copyInto overwrites the wire fields of the message at dst with (copies of) those of src.
func (x *Exec) copyInto(st *State, t types.Type, dst, src Term) {
	wm := Add(st.AllocBase, IntT(int64(st.AllocN)))
	for _, f := range protoFields(t) {
		v := x.loadAddrPure(st, &Addr{Prefix: fieldPrefix(t, f.Name()), Ref: src, T: f.Type()})
		x.assumeOlder(st, v, wm)
		if mt, ok := isTypesMsgPtr(f.Type()); ok {
			inner := x.deepCopy(st, mt, v.T, 1)
			v = scalar(Ite(Eq(v.T, IntT(0)), IntT(0), inner), f.Type())
		}
		x.storeAddr(st, &Addr{Prefix: fieldPrefix(t, f.Name()), Ref: dst, T: f.Type()}, v)
	}
}

// assumeOlder: references stored in existing objects were allocated before wm.
func (x *Exec) assumeOlder(st *State, v Val, wm Term) {
	var r Term
	switch v.K {
	case VScalar:
		if v.T.Sort != SInt {
			return
		}
		switch v.GoT.Underlying().(type) {
		case *types.Pointer, *types.Slice, *types.Map:
			r = v.T
		default:
			return
		}
	case VSlice:
		r = v.Ref
	default:
		return
	}
	if _, lit := litInt(r); lit {
		return
	}
	st.assume(And(Ge(r, IntT(0)), Le(r, wm)))
	st.markOlder(r)
}

func (x *Exec) msgId(st *State, t types.Type, ref Term) Term {
	return x.loadAddrPure(st, &Addr{Prefix: fieldPrefix(t, "Id"), Ref: ref, T: types.Typ[types.String]}).T
}

// newErr: a fresh non-nil error that is none of the sentinel kinds.
func (x *Exec) newErr(st *State, what string) Val {
	v := x.newErrAny(st, what)
	for _, p := range []string{"isNotFound", "isDuplicate", "isClosed", "isTemporary", "isCtxErr"} {
		st.assume(Not(x.errPred(p, v.T)))
	}
	return v
}

// newErrAny: a fresh non-nil error of arbitrary kind (storage and listener failures).
func (x *Exec) newErrAny(st *State, what string) Val {
	e := x.fresh(st, "err!"+what, SInt)
	st.assume(Gt(e, IntT(0)))
	st.assume(Neq(e, IntT(0))) // in the textual form branch conditions use, so infeasible branches are pruned
	return Val{K: VIface, T: e, GoT: errType}
}

var errType = types.Universe.Lookup("error").Type()

func nilErr() Val { return Val{K: VIface, T: IntT(0), GoT: errType} }

func (x *Exec) errPred(p string, e Term) Term {
	x.Reg.DeclareFun("err!"+p, []string{SInt}, SBool)
	x.Reg.Axiom("errnil:"+p, "(not ("+sym("err!"+p)+" 0))") // the nil error is of no kind
	return app(sym("err!"+p), SBool, e)
}

// storageMsg extracts (kind, struct type, ref) from the message argument.
func (x *Exec) storageMsg(v Val) (string, types.Type, Term, bool) {
	if v.K == VIface && v.Dyn != nil {
		if k, t, ok := msgKind(v.Dyn); ok {
			return k, t, v.Payload.T, true
		}
	}
	if v.K == VScalar {
		if k, t, ok := msgKind(v.GoT); ok {
			return k, t, v.T, true
		}
	}
	return "", nil, Term{}, false
}

func init() {
	stor := "iface:nodeenrollment.Storage."
	nid := "iface:nodeenrollment.NodeIdLoader."
	for _, p := range []string{stor, nid} {
		intrinsics[p+"Store"] = storageStore
		intrinsics[p+"Load"] = storageLoad
		intrinsics[p+"Remove"] = storageRemove
		intrinsics[p+"List"] = storageList
	}
	intrinsics[nid+"LoadByNodeId"] = storageLoadByNodeId
}

func storageStore(x *Exec, st *State, c *CallCtx) []Outcome {
	st.StorageOps++
	kind, t, ref, ok := x.storageMsg(c.Args[2])
	if !ok {
		x.note(x.Outside, "Storage.Store with statically unknown message type in "+funcKey(c.Fr.Fn))
		x.havocStorage(st)
		return x.havocCall(st, c, "Storage.Store(unknown)")
	}
	fail := st.clone()
	fe := x.newErrAny(fail, "store")
	// success
	id := x.msgId(st, t, ref)
	snap := x.deepCopy(st, t, ref, 0)
	x.stSet(st, kind, id, BoolT(true), &snap)
	st.Trace = append(st.Trace, "Store:ok")
	fail.Trace = append(fail.Trace, "Store:err")
	return []Outcome{{St: st, Res: []Val{nilErr()}}, {St: fail, Res: []Val{fe}}}
}

func (x *Exec) havocStorage(st *State) {
	for _, k := range []string{"nodeinfo", "nodecreds", "roots", "token"} {
		x.havocArray(st, "St!has!"+k, arrSort(SStr, SBool))
		x.havocArray(st, "St!rec!"+k, arrSort(SStr, SInt))
	}
}

func storageLoad(x *Exec, st *State, c *CallCtx) []Outcome {
	st.StorageOps++
	kind, t, ref, ok := x.storageMsg(c.Args[2])
	if !ok {
		x.note(x.Outside, "Storage.Load with statically unknown message type in "+funcKey(c.Fr.Fn))
		return x.havocCall(st, c, "Storage.Load(unknown)")
	}
	id := x.msgId(st, t, ref)
	has := Select(x.stHas(st, kind), id, SBool)
	rec := Select(x.stRec(st, kind), id, SInt)
	var outs []Outcome
	// not found
	nf := st.clone()
	nf.assume(Not(has))
	ne := x.newErrAny(nf, "notfound")
	nf.assume(x.errPred("isNotFound", ne.T))
	nf.Trace = append(nf.Trace, "Load:notfound")
	outs = append(outs, Outcome{St: nf, Res: []Val{ne}})
	if x.Faulty {
		fl := st.clone()
		fe := x.newErrAny(fl, "load")
		fl.Trace = append(fl.Trace, "Load:err")
		outs = append(outs, Outcome{St: fl, Res: []Val{fe}})
	}
	// found
	st.assume(has)
	st.assume(And(Gt(rec, IntT(0)), Le(rec, Add(st.AllocBase, IntT(int64(st.AllocN))))))
	st.assume(Eq(x.msgId(st, t, rec), id))
	x.copyInto(st, t, ref, rec)
	st.Trace = append(st.Trace, "Load:ok")
	outs = append([]Outcome{{St: st, Res: []Val{nilErr()}}}, outs...)
	return outs
}

func storageRemove(x *Exec, st *State, c *CallCtx) []Outcome {
	st.StorageOps++
	kind, t, ref, ok := x.storageMsg(c.Args[2])
	if !ok {
		x.note(x.Outside, "Storage.Remove with statically unknown message type in "+funcKey(c.Fr.Fn))
		x.havocStorage(st)
		return x.havocCall(st, c, "Storage.Remove(unknown)")
	}
	fail := st.clone()
	fe := x.newErrAny(fail, "remove")
	fail.Trace = append(fail.Trace, "Remove:err")
	id := x.msgId(st, t, ref)
	x.stSet(st, kind, id, BoolT(false), nil)
	st.Trace = append(st.Trace, "Remove:ok")
	return []Outcome{{St: st, Res: []Val{nilErr()}}, {St: fail, Res: []Val{fe}}}
}

func storageList(x *Exec, st *State, c *CallCtx) []Outcome {
	st.StorageOps++
	return x.havocCall(st, c, "Storage.List (result arbitrary, storage unchanged)")
}

// LoadByNodeId: success returns n >= 0 fresh copies of stored node records whose
// NodeId equals the requested one.
func storageLoadByNodeId(x *Exec, st *State, c *CallCtx) []Outcome {
	st.StorageOps++
	set := c.Args[2]
	var setRef Term
	var setT types.Type
	if set.K == VIface && set.Dyn != nil {
		setRef = set.Payload.T
		setT = set.Dyn.Underlying().(*types.Pointer).Elem()
	} else {
		return x.havocCall(st, c, "LoadByNodeId(unknown)")
	}
	fail := st.clone()
	fe := x.newErrAny(fail, "loadbynodeid")
	fail.Trace = append(fail.Trace, "LoadByNodeId:err")

	nodeId := x.loadAddrPure(st, &Addr{Prefix: fieldPrefix(setT, "NodeId"), Ref: setRef, T: types.Typ[types.String]}).T
	// element type
	var nodesF *types.Var
	for _, f := range protoFields(setT) {
		if f.Name() == "Nodes" {
			nodesF = f
		}
	}
	slT := nodesF.Type()
	et := slT.Underlying().(*types.Slice).Elem()
	nt := et.Underlying().(*types.Pointer).Elem()
	n := x.fresh(st, "nnodes", SInt)
	// (the interface asks for ErrNotFound when nothing matches, but a success with no records is not excluded)
	st.assume(Ge(n, IntT(0)))
	wmBefore := Add(st.AllocBase, IntT(int64(st.AllocN)))
	wmB := x.define(st, "wmB", wmBefore)
	sref := x.alloc(st)
	x.registerElemPrefix(elemPrefix(et), et)
	row := x.fresh(st, "nodesrow", arrSort(SInt, SInt))
	name := elemPrefix(et)
	x.writeRow(st, name, arrSort(SInt, SInt), sref, row)
	// havoc the field arrays of NodeInformation: old objects keep their values, the
	// new elements are copies of stored snapshots
	hasA := x.stHas(st, "nodeinfo")
	recA := x.stRec(st, "nodeinfo")
	type fa struct {
		name, sort string
		old, nw   Term
	}
	var fas []fa
	for _, f := range protoFields(nt) {
		p := fieldPrefix(nt, f.Name())
		x.registerPrefix(p, f.Type())
		for _, cp := range comps(f.Type()) {
			nm := p + cp.Suffix
			srt := arrSort(SInt, cp.Sort)
			old := x.heapCur(st, nm, srt)
			nw := x.fresh(st, "Hn!"+nm, srt)
			st.Heap[nm] = nw.S
			fas = append(fas, fa{nm, cp.Sort, old, nw})
		}
	}
	x.fwdDropPrefix(st, "F!"+typeName(nt)+"!")
	idArr := x.heapCur(st, fieldPrefix(nt, "Id"), arrSort(SInt, SStr))
	nidArr := x.heapCur(st, fieldPrefix(nt, "NodeId"), arrSort(SInt, SStr))
	// frame: objects existing before the call are unchanged
	for _, f := range fas {
		st.addCmd(fmt.Sprintf("(assert (forall ((r Int)) (! (=> (<= r %s) (= (select %s r) (select %s r))) :pattern ((select %s r)))))", wmB.S, f.nw.S, f.old.S, f.nw.S))
	}
	// elements
	var conj []string
	conj = append(conj, fmt.Sprintf("(> (select %s i) %s)", row.S, wmB.S))
	eid := fmt.Sprintf("(select %s (select %s i))", idArr.S, row.S)
	conj = append(conj, fmt.Sprintf("(select %s %s)", hasA.S, eid))
	conj = append(conj, fmt.Sprintf("(= (select %s (select %s i)) %s)", nidArr.S, row.S, nodeId.S))
	for _, f := range fas {
		conj = append(conj, fmt.Sprintf("(= (select %s (select %s i)) (select %s (select %s %s)))", f.nw.S, row.S, f.old.S, recA.S, eid))
	}
	conj = append(conj, fmt.Sprintf("(> (select %s %s) 0)", recA.S, eid))
	conj = append(conj, fmt.Sprintf("(<= (select %s %s) %s)", recA.S, eid, wmB.S))
	st.addCmd(fmt.Sprintf("(assert (forall ((i Int)) (! (=> (and (<= 0 i) (< i %s)) (and %s)) :pattern ((select %s i)))))", n.S, strings.Join(conj, " "), row.S))
	// distinct elements are distinct objects
	st.addCmd(fmt.Sprintf("(assert (forall ((i Int) (j Int)) (! (=> (and (<= 0 i) (< i j) (< j %s)) (not (= (select %s i) (select %s j)))) :pattern ((select %s i) (select %s j)))))", n.S, row.S, row.S, row.S, row.S))
	// later allocations lie above the returned objects
	nb := x.fresh(st, "wm", SInt)
	st.assume(Ge(nb, Add(st.AllocBase, IntT(int64(st.AllocN)))))
	st.addCmd(fmt.Sprintf("(assert (forall ((i Int)) (! (=> (and (<= 0 i) (< i %s)) (< (select %s i) %s)) :pattern ((select %s i)))))", n.S, row.S, nb.S, row.S))
	st.AllocBase, st.AllocN = nb, 0
	sv := Val{K: VSlice, GoT: slT, Ref: sref, Off: IntT(0), Len: n, Cap: n}
	x.storeAddr(st, &Addr{Prefix: fieldPrefix(setT, "Nodes"), Ref: setRef, T: slT}, sv)
	st.Trace = append(st.Trace, "LoadByNodeId:ok")
	return []Outcome{{St: st, Res: []Val{nilErr()}}, {St: fail, Res: []Val{fe}}}
}

// ---------------------------------------------------------------- contract access to ghost storage

func (x *Exec) evalSt(c *evalCtx, fn string, a []Val) (Val, error) {
	if len(a) != 2 {
		return Val{}, fmt.Errorf("%s(kind, id)", fn)
	}
	kind := strings.Trim(a[0].T.S, `"`)
	var mt types.Type
	for tn, k := range kindOfType {
		if k == kind {
			mt = x.lookupNamed(tn)
		}
	}
	if mt == nil {
		return Val{}, fmt.Errorf("unknown storage kind %q", kind)
	}
	st := c.state()
	id := a[1].T
	if id.Sort != SStr {
		return Val{}, fmt.Errorf("%s: id must be a string", fn)
	}
	if fn == "StHas" {
		return boolV(Select(x.stHas(st, kind), id, SBool)), nil
	}
	rec := Select(x.stRec(st, kind), id, SInt)
	if _, written := st.Heap["St!rec!"+kind]; !written && c.st != nil && x.Mode != "summary" && !strings.Contains(rec.S, "!q") {
		// snapshots of the arbitrary pre-state are objects that existed at entry
		if _, done := c.st.Older[rec.S]; !done {
			c.st.assume(And(Ge(rec, IntT(0)), Le(rec, c.st.WM0)))
			c.st.Older[rec.S] = 0
		}
	}
	return scalar(rec, types.NewPointer(mt)), nil
}

func (x *Exec) lookupNamed(short string) types.Type {
	i := strings.LastIndex(short, ".")
	pkgShort, name := short[:i], short[i+1:]
	for _, p := range x.Prog.Pkgs {
		if p.Types != nil && shortPkg(p.Types.Path()) == pkgShort {
			if o := p.Types.Scope().Lookup(name); o != nil {
				return o.Type()
			}
		}
	}
	// dependencies
	var found types.Type
	for _, p := range x.Prog.Prog.AllPackages() {
		if shortPkg(p.Pkg.Path()) == pkgShort {
			if o := p.Pkg.Scope().Lookup(name); o != nil {
				found = o.Type()
			}
		}
	}
	return found
}

// sameRec(a, b): field-wise equality of two messages of the same type (nested
// module messages compared field-wise, leaves by value / reference).
func (x *Exec) evalSameRec(c *evalCtx, a []Val) (Val, error) {
	if len(a) != 2 {
		return Val{}, fmt.Errorf("sameRec(a, b)")
	}
	t, _, ok := derefStruct(a[0].GoT)
	if !ok {
		return Val{}, fmt.Errorf("sameRec on non-message")
	}
	// the second argument may come from another state (old)
	return boolV(x.sameRec(c.state(), c.state(), t, a[0].T, a[1].T, 0)), nil
}

func (x *Exec) sameRec(sa, sb *State, t types.Type, ra, rb Term, depth int) Term {
	eq := BoolT(true)
	for _, f := range protoFields(t) {
		va := x.loadAddrPure(sa, &Addr{Prefix: fieldPrefix(t, f.Name()), Ref: ra, T: f.Type()})
		vb := x.loadAddrPure(sb, &Addr{Prefix: fieldPrefix(t, f.Name()), Ref: rb, T: f.Type()})
		if mt, ok := isTypesMsgPtr(f.Type()); ok && depth < 3 {
			inner := x.sameRec(sa, sb, mt, va.T, vb.T, depth+1)
			eq = And(eq, Eq(Eq(va.T, IntT(0)), Eq(vb.T, IntT(0))), Implies(Neq(va.T, IntT(0)), inner))
			continue
		}
		if isByteSlice(f.Type()) {
			eq = And(eq, Eq(x.bytesContent(sa, va.T), x.bytesContent(sb, vb.T)))
			continue
		}
		if va.K == VSlice && vb.K == VSlice {
			eq = And(eq, Eq(va.Ref, vb.Ref), Eq(va.Len, vb.Len))
			continue
		}
		fa, fb := flatten(va), flatten(vb)
		for i := range fa {
			eq = And(eq, Eq(fa[i], fb[i]))
		}
	}
	return eq
}

// tsTime: instant (ns) of a *timestamppb.Timestamp; nil is the epoch. The
// instant is kept in a ghost field of the Timestamp object.
const tsPrefix = "F!google.golang.org/protobuf/types/known/timestamppb.Timestamp!$ns"

func (x *Exec) tsTime(st *State, ref Term) Term {
	x.registerPrefix(tsPrefix, types.Typ[types.Int64])
	if st.Fresh[ref.S] || st.NonNil[ref.S] {
		return x.readComp(st, tsPrefix, SInt, ref)
	}
	return Ite(Eq(ref, IntT(0)), IntT(0), x.readComp(st, tsPrefix, SInt, ref))
}

func (x *Exec) tsSet(st *State, ref Term, ns Term) {
	x.registerPrefix(tsPrefix, types.Typ[types.Int64])
	x.writeComp(st, tsPrefix, SInt, ref, ns)
	delete(st.Fwd, tsPrefix+"@"+ref.S)
}

func isTimestampType(t types.Type) bool {
	return isNamed(t, "google.golang.org/protobuf/types/known/timestamppb", "Timestamp")
}
