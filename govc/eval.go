package main

import (
	"fmt"
	"go/types"
	"strconv"
	"strings"

	"golang.org/x/tools/go/ssa"
)

type evalCtx struct {
	x     *Exec
	st    *State
	old   *State
	env   map[string]Val
	fr    *Frame
	bound map[string]Val
	inOld bool
	// goal: the expression is a proof goal (not an assumption); neg: number of negations above the current
	// subexpression. In a goal, a disjunct at positive polarity that is not well defined at this program
	// point (a local that is not in scope) is dropped - which only makes the goal harder to prove.
	goal bool
	neg  int
	// norename: already looking up a re-bound name
	norename bool
}

func (c *evalCtx) state() *State {
	if c.inOld && c.old != nil {
		return c.old
	}
	return c.st
}

// specType is a pseudo Go type for spec-only values.
var (
	tInt    = types.Typ[types.Int]
	tBool   = types.Typ[types.Bool]
	tString = types.Typ[types.String]
)

func boolV(t Term) Val { return scalar(t, tBool) }
func intV(t Term) Val  { return scalar(t, tInt) }
func strV(t Term) Val  { return scalar(t, tString) }

func (x *Exec) evalExpr(c *evalCtx, e Expr) (Val, error) {
	switch v := e.(type) {
	case EInt:
		return intV(IntT(v.V)), nil
	case EStr:
		return strV(StrT(v.V)), nil
	case EBool:
		return boolV(BoolT(v.V)), nil
	case ENil:
		return intV(IntT(0)), nil
	case EIdent:
		return x.evalIdent(c, v.Name)
	case EUn:
		if v.Op == "!" {
			c.neg++
		}
		a, err := x.evalExpr(c, v.X)
		if v.Op == "!" {
			c.neg--
		}
		if err != nil {
			return Val{}, err
		}
		if v.Op == "!" {
			return boolV(Not(a.T)), nil
		}
		return intV(Sub(IntT(0), a.T)), nil
	case EBin:
		return x.evalBin(c, v)
	case ESel:
		return x.evalSel(c, v)
	case EIndex:
		return x.evalIndex(c, v)
	case ESlice:
		return x.evalSliceExpr(c, v)
	case ECall:
		return x.evalCall(c, v)
	case EQuant:
		return x.evalQuant(c, v)
	}
	return Val{}, fmt.Errorf("cannot evaluate %T", e)
}

func (x *Exec) evalIdent(c *evalCtx, name string) (Val, error) {
	if v, ok := c.bound[name]; ok {
		return v, nil
	}
	if v, ok := c.env[name]; ok {
		return v, nil
	}
	// captured variable of a closure: load the cell
	if v, ok := c.env["&"+name]; ok {
		st := c.state()
		return x.load(st, c.fr, v, v.GoT), nil
	}
	if c.fr != nil {
		if v, ok := c.fr.Dbg[name]; ok {
			return v, nil
		}
		if v, ok := c.fr.Dbg["&"+name]; ok {
			return x.load(c.state(), c.fr, v, v.GoT), nil
		}
	}
	// package-level constants of the module
	if v, ok := x.lookupConst(name); ok {
		return v, nil
	}
	// a name the contracts use that the function no longer declares: re-bound after a rename (names.go)
	if c.fr != nil && !c.norename {
		if cur, kind, ok := x.renamedTo(c.fr.Fn, name); ok {
			c.norename = true
			v, err := x.evalIdent(c, cur)
			c.norename = false
			if err == nil {
				x.noteRename(c.fr.Fn, kind, name, cur)
				return v, nil
			}
		}
	}
	return Val{}, fmt.Errorf("unknown identifier %q", name)
}

func (x *Exec) lookupConst(name string) (Val, bool) {
	var pkgs []*types.Package
	if x.TopFn != nil && x.TopFn.Pkg != nil {
		pkgs = append(pkgs, x.TopFn.Pkg.Pkg)
	} else if x.TopFn != nil && x.TopFn.Parent() != nil {
		r := x.TopFn
		for r.Parent() != nil {
			r = r.Parent()
		}
		if r.Pkg != nil {
			pkgs = append(pkgs, r.Pkg.Pkg)
		}
	}
	for _, p := range x.Prog.Pkgs {
		if p.Types != nil && inModule(p.Types) {
			pkgs = append(pkgs, p.Types)
		}
	}
	for _, p := range pkgs {
		if o := p.Scope().Lookup(name); o != nil {
			if cst, ok := o.(*types.Const); ok {
				return x.constVal(ssa.NewConst(cst.Val(), cst.Type())), true
			}
		}
	}
	return Val{}, false
}

// flattenOp lists the operands of a left-associated chain of op.
func flattenOp(e Expr, op string) []Expr {
	if b, ok := e.(EBin); ok && b.Op == op {
		return append(flattenOp(b.L, op), flattenOp(b.R, op)...)
	}
	return []Expr{e}
}

func (x *Exec) knownTruth(c *evalCtx, e Expr, v Val) (isTrue, isFalse bool) {
	if v.K != VScalar || v.T.Sort != SBool {
		return false, false
	}
	if isLit(v.T, "true") {
		return true, false
	}
	if isLit(v.T, "false") {
		return false, true
	}
	st := c.state()
	if st == nil {
		return false, false
	}
	if st.Known.has(v.T.S) {
		return true, false
	}
	if st.Known.has(Not(v.T).S) {
		return false, true
	}
	if u, ok := e.(EUn); ok && u.Op == "!" {
		if iv, err := x.evalExpr(c, u.X); err == nil {
			f, t := x.knownTruth(c, u.X, iv)
			return t, f
		}
	}
	return false, false
}

func (x *Exec) evalBin(c *evalCtx, b EBin) (Val, error) {
	if b.Op == "||" || b.Op == "&&" {
		// operands in order; an operand that is not well defined (a local that is not in scope at this
		// program point) is irrelevant once an earlier operand decides the result on this path
		ops := flattenOp(b, b.Op)
		if len(ops) >= 2 {
			acc := BoolT(b.Op == "&&")
			for _, o := range ops {
				v, err := x.evalExpr(c, o)
				if err != nil {
					if c.goal && c.neg%2 == 0 && b.Op == "||" && strings.Contains(err.Error(), "unknown identifier") {
						continue
					}
					return Val{}, err
				}
				if v.K != VScalar || v.T.Sort != SBool {
					return Val{}, fmt.Errorf("operand of %s is not boolean", b.Op)
				}
				t, f := x.knownTruth(c, o, v)
				if b.Op == "||" {
					if t {
						return boolV(BoolT(true)), nil
					}
					acc = Or(acc, v.T)
				} else {
					if f {
						return boolV(BoolT(false)), nil
					}
					acc = And(acc, v.T)
				}
			}
			return boolV(acc), nil
		}
	}
	if b.Op == "==>" {
		c.neg++
	}
	l, err := x.evalExpr(c, b.L)
	if b.Op == "==>" {
		c.neg--
	}
	if err != nil {
		return Val{}, err
	}
	// short circuit: the right operand need not be well defined when it is irrelevant
	switch {
	case b.Op == "==>" && isLit(l.T, "false"):
		return boolV(BoolT(true)), nil
	case b.Op == "&&" && isLit(l.T, "false"):
		return boolV(BoolT(false)), nil
	case b.Op == "||" && isLit(l.T, "true"):
		return boolV(BoolT(true)), nil
	}
	// facts already known on this path decide the left operand as well
	if st := c.state(); st != nil && l.K == VScalar && l.T.Sort == SBool {
		knownFalse := st.Known.has(Not(l.T).S)
		knownTrue := st.Known.has(l.T.S)
		if e, ok := b.L.(EBin); ok && (e.Op == "==" || e.Op == "!=") {
			// err == nil with err known non-nil, and the like
			if ll, lerr := x.evalExpr(c, e.L); lerr == nil {
				if rr, rerr := x.evalExpr(c, e.R); rerr == nil && ll.T.Sort == rr.T.Sort && ll.T.S != "" && rr.T.S != "" {
					if st.Known.has(Neq(ll.T, rr.T).S) || st.Known.has(Not(Eq(ll.T, rr.T)).S) {
						if e.Op == "==" {
							knownFalse = true
						} else {
							knownTrue = true
						}
					}
				}
			}
		}
		switch {
		case b.Op == "==>" && knownFalse:
			return boolV(BoolT(true)), nil
		case b.Op == "&&" && knownFalse:
			return boolV(BoolT(false)), nil
		case b.Op == "||" && knownTrue:
			return boolV(BoolT(true)), nil
		}
	}
	r, err := x.evalExpr(c, b.R)
	if err != nil {
		return Val{}, err
	}
	switch b.Op {
	case "==>":
		return boolV(Implies(l.T, r.T)), nil
	case "<==>":
		return boolV(Eq(l.T, r.T)), nil
	case "&&":
		return boolV(And(l.T, r.T)), nil
	case "||":
		return boolV(Or(l.T, r.T)), nil
	case "==", "!=":
		eq, err := x.valEq(c, l, r)
		if err != nil {
			return Val{}, err
		}
		if b.Op == "!=" {
			eq = Not(eq)
		}
		return boolV(eq), nil
	}
	lt, rt := l.T, r.T
	if lt.Sort == SStr && b.Op == "+" {
		return strV(strConcat(lt, rt)), nil
	}
	switch b.Op {
	case "+":
		return intV(Add(lt, rt)), nil
	case "-":
		return intV(Sub(lt, rt)), nil
	case "*":
		return intV(Mul(lt, rt)), nil
	case "/":
		return intV(goDivRem(true, lt, rt)), nil
	case "%":
		return intV(goDivRem(false, lt, rt)), nil
	case "<":
		return boolV(Lt(lt, rt)), nil
	case "<=":
		return boolV(Le(lt, rt)), nil
	case ">":
		return boolV(Gt(lt, rt)), nil
	case ">=":
		return boolV(Ge(lt, rt)), nil
	}
	return Val{}, fmt.Errorf("operator %s", b.Op)
}

func (x *Exec) valEq(c *evalCtx, l, r Val) (Term, error) {
	// nil comparisons
	if l.K == VSlice && r.K == VScalar {
		return Eq(l.Ref, r.T), nil
	}
	if r.K == VSlice && l.K == VScalar {
		return Eq(r.Ref, l.T), nil
	}
	if l.K == VSlice && r.K == VSlice {
		// offsets are compared only between engine-made sub-slices; slices stored in entry / returned
		// objects are identified by their backing reference (see normalizeEntrySlice)
		return And(Eq(l.Ref, r.Ref), Eq(l.Len, r.Len)), nil
	}
	if l.K == VStruct || r.K == VStruct {
		fa, fb := flatten(l), flatten(r)
		if len(fa) != len(fb) {
			return Term{}, fmt.Errorf("comparing structs of different shape")
		}
		_ = fa
		eq := BoolT(true)
		for i := range fa {
			eq = And(eq, Eq(fa[i], fb[i]))
		}
		return eq, nil
	}
	if l.T.Sort != r.T.Sort {
		return Term{}, fmt.Errorf("comparing %s with %s (%s vs %s)", l.T.Sort, r.T.Sort, l.T.S, r.T.S)
	}
	return Eq(l.T, r.T), nil
}

func derefStruct(t types.Type) (types.Type, *types.Struct, bool) {
	if p, ok := t.Underlying().(*types.Pointer); ok {
		t = p.Elem()
	}
	s, ok := t.Underlying().(*types.Struct)
	return t, s, ok
}

func (x *Exec) evalSel(c *evalCtx, s ESel) (Val, error) {
	// opts(opt).Field
	if call, ok := s.X.(ECall); ok && call.Fn == "opts" {
		return x.evalOptsField(c, call, s.Field)
	}
	base, err := x.evalExpr(c, s.X)
	if err != nil {
		return Val{}, err
	}
	if base.GoT == nil {
		return Val{}, fmt.Errorf("selector .%s on untyped value", s.Field)
	}
	st := c.state()
	if base.K == VIface && base.Dyn != nil && base.Payload != nil {
		pv := *base.Payload
		pv.GoT = base.Dyn
		base = pv
	}
	if base.K == VStruct {
		su := base.GoT.Underlying().(*types.Struct)
		for i := 0; i < su.NumFields(); i++ {
			if su.Field(i).Name() == s.Field {
				return base.Parts[i], nil
			}
		}
		return Val{}, fmt.Errorf("no field %s in %s", s.Field, base.GoT)
	}
	pt, su, ok := derefStruct(base.GoT)
	if !ok {
		return Val{}, fmt.Errorf("selector .%s on non-struct %s (in %v)", s.Field, base.GoT, s.X)
	}
	for i := 0; i < su.NumFields(); i++ {
		f := su.Field(i)
		if f.Name() == s.Field {
			a := &Addr{Prefix: fieldPrefix(pt, f.Name()), Ref: base.T, T: f.Type()}
			v := x.loadAddrPure(st, a)
			x.boundSpecRef(c, st, a, v)
			return v, nil
		}
	}
	// promoted fields through embedded pointers/structs (one level)
	for i := 0; i < su.NumFields(); i++ {
		f := su.Field(i)
		if !f.Embedded() {
			continue
		}
		a := &Addr{Prefix: fieldPrefix(pt, f.Name()), Ref: base.T, T: f.Type()}
		inner := x.loadAddrPure(st, a)
		if v, err := x.evalSelOn(c, inner, s.Field); err == nil {
			return v, nil
		}
	}
	return Val{}, fmt.Errorf("no field %s in %s", s.Field, pt)
}

func (x *Exec) evalSelOn(c *evalCtx, base Val, field string) (Val, error) {
	c2 := *c
	c2.bound = map[string]Val{}
	for k, v := range c.bound {
		c2.bound[k] = v
	}
	c2.bound["$sel"] = base
	return x.evalSel(&c2, ESel{EIdent{"$sel"}, field})
}

// loadAddrPure reads the heap without adding assumptions to the path (used in
// contract expressions, including old-state reads).
func (x *Exec) loadAddrPure(st *State, a *Addr) Val {
	if isStructVal(a.T) {
		s := a.T.Underlying().(*types.Struct)
		v := Val{K: VStruct, GoT: a.T}
		for i := 0; i < s.NumFields(); i++ {
			f := s.Field(i)
			v.Parts = append(v.Parts, x.loadAddrPure(st, &Addr{Prefix: a.Prefix + "." + f.Name(), Ref: a.Ref, Idx: a.Idx, T: f.Type()}))
		}
		return v
	}
	if a.Idx != nil {
		x.registerElemPrefix(a.Prefix, a.T)
	} else {
		x.registerPrefix(a.Prefix, a.T)
	}
	key := a.Prefix + "@" + a.Ref.S
	if a.Idx != nil {
		key += "#" + a.Idx.S
	}
	if v, ok := st.Fwd[key]; ok {
		return v
	}
	cs := comps(a.T)
	ts := make([]Term, len(cs))
	for i, cp := range cs {
		if a.Idx != nil {
			ts[i] = x.readElem(st, a.Prefix+cp.Suffix, cp.Sort, a.Ref, *a.Idx)
		} else {
			ts[i] = x.readComp(st, a.Prefix+cp.Suffix, cp.Sort, a.Ref)
		}
	}
	v, _ := unflatten(a.T, ts)
	x.normalizeEntrySlice(st, a, &v)
	if v.K == VSlice && isOptionSlice(v.GoT) {
		x.Reg.DeclareFun("optseq", []string{SInt, SInt, SInt}, SInt)
		v.Abs = &OptAbs{Base: app("optseq", SInt, v.Ref, v.Off, v.Len)}
	}
	return v
}

func (x *Exec) evalIndex(c *evalCtx, e EIndex) (Val, error) {
	base, err := x.evalExpr(c, e.X)
	if err != nil {
		return Val{}, err
	}
	idx, err := x.evalExpr(c, e.I)
	if err != nil {
		return Val{}, err
	}
	st := c.state()
	switch {
	case base.K == VSlice:
		et := base.GoT.Underlying().(*types.Slice).Elem()
		ix := x.idxTerm(base.Off, idx.T)
		return x.loadAddrPure(st, &Addr{Prefix: elemPrefix(et), Ref: base.Ref, Idx: &ix, T: et}), nil
	case base.K == VScalar && base.T.Sort == SStr:
		return strV(app("str.at", SStr, base.T, idx.T)), nil
	}
	return Val{}, fmt.Errorf("index on %s", base.String())
}

func (x *Exec) evalSliceExpr(c *evalCtx, e ESlice) (Val, error) {
	base, err := x.evalExpr(c, e.X)
	if err != nil {
		return Val{}, err
	}
	if base.K != VScalar || base.T.Sort != SStr {
		return Val{}, fmt.Errorf("slice expression on non-string")
	}
	lo := IntT(0)
	if e.Lo != nil {
		l, err := x.evalExpr(c, e.Lo)
		if err != nil {
			return Val{}, err
		}
		lo = l.T
	}
	hi := StrLen(base.T)
	if e.Hi != nil {
		h, err := x.evalExpr(c, e.Hi)
		if err != nil {
			return Val{}, err
		}
		hi = h.T
	}
	return strV(app("str.substr", SStr, base.T, lo, Sub(hi, lo))), nil
}

func sortOfName(s string) string {
	switch s {
	case "int", "Int":
		return SInt
	case "bool", "Bool":
		return SBool
	case "string", "String":
		return SStr
	case "StrRow":
		return arrSort(SInt, SStr)
	case "IntRow":
		return arrSort(SInt, SInt)
	}
	return SInt
}

func (x *Exec) evalQuant(c *evalCtx, q EQuant) (Val, error) {
	c2 := *c
	c2.bound = map[string]Val{}
	for k, v := range c.bound {
		c2.bound[k] = v
	}
	var decl []string
	for i, vn := range q.Vars {
		name := vn + "!q" + strconv.Itoa(x.uniq())
		srt := sortOfName(q.Sort[i])
		decl = append(decl, "("+sym(name)+" "+srt+")")
		gt := types.Type(tInt)
		if strings.HasPrefix(srt, "(Array") {
			gt = nil
		}
		if srt == SStr {
			gt = tString
		} else if srt == SBool {
			gt = tBool
		}
		c2.bound[vn] = scalar(Term{sym(name), srt}, gt)
	}
	body, err := x.evalExpr(&c2, q.Body)
	if err != nil {
		return Val{}, err
	}
	kw := "forall"
	if !q.All {
		kw = "exists"
	}
	return boolV(Term{"(" + kw + " (" + strings.Join(decl, " ") + ") " + body.T.S + ")", SBool}), nil
}

// ---------------------------------------------------------------- spec functions

func (x *Exec) evalArgs(c *evalCtx, args []Expr) ([]Val, error) {
	var out []Val
	for _, a := range args {
		v, err := x.evalExpr(c, a)
		if err != nil {
			return nil, err
		}
		out = append(out, v)
	}
	return out, nil
}

// bytesOf: content (String) of a []byte value or a string.
func (x *Exec) bytesOf(st *State, v Val) Term {
	if v.T.Sort == SStr {
		return v.T
	}
	return x.bytesContent(st, v.T)
}

func (x *Exec) evalCall(c *evalCtx, call ECall) (Val, error) {
	st := c.state()
	switch call.Fn {
	case "old":
		if len(call.Args) != 1 {
			return Val{}, fmt.Errorf("old(e)")
		}
		c2 := *c
		c2.inOld = true
		return x.evalExpr(&c2, call.Args[0])
	case "opts":
		a, err := x.evalArgs(c, call.Args)
		if err != nil {
			return Val{}, err
		}
		if len(a) != 1 || a[0].K != VSlice || a[0].Abs == nil || a[0].Abs.Unknown {
			why := "not a slice"
			if len(a) == 1 && a[0].K == VSlice {
				why = fmt.Sprintf("abs=%v", a[0].Abs)
			}
			return Val{}, fmt.Errorf("opts(): option list value not tracked (%s)", why)
		}
		fields, _ := x.optRecord(c.state(), a[0].Abs)
		ot := x.optionsType()
		v := Val{K: VStruct, GoT: ot}
		for _, f := range structFields(ot) {
			v.Parts = append(v.Parts, fields[f.Name()])
		}
		return v, nil
	case "now":
		// now(k): k-th clock reading of the call; now(last): last reading (the argument is not an expression)
		return x.evalNow(c, call)
	case "ite":
		a, err := x.evalArgs(c, call.Args)
		if err != nil {
			return Val{}, err
		}
		r := a[1]
		r.T = Ite(a[0].T, a[1].T, a[2].T)
		return r, nil
	}
	a, err := x.evalArgs(c, call.Args)
	if err != nil {
		return Val{}, err
	}
	need := func(n int) error {
		if len(a) != n {
			return fmt.Errorf("%s expects %d arguments", call.Fn, n)
		}
		return nil
	}
	switch call.Fn {
	case "len":
		if err := need(1); err != nil {
			return Val{}, err
		}
		return intV(x.lenOf(st, a[0])), nil
	case "cap":
		if a[0].K == VSlice {
			return intV(a[0].Cap), nil
		}
		return intV(x.lenOf(st, a[0])), nil
	case "bytes", "str":
		return strV(x.bytesOf(st, a[0])), nil
	case "hasPrefix":
		return boolV(app("str.prefixof", SBool, a[1].T, a[0].T)), nil
	case "hasSuffix":
		return boolV(app("str.suffixof", SBool, a[1].T, a[0].T)), nil
	case "contains":
		return boolV(app("str.contains", SBool, a[0].T, a[1].T)), nil
	case "indexOf":
		return intV(app("str.indexof", SInt, a[0].T, a[1].T, IntT(0))), nil
	case "substr":
		return strV(app("str.substr", SStr, a[0].T, a[1].T, Sub(a[2].T, a[1].T))), nil
	case "trimPrefix":
		// strings.TrimPrefix(s, p)
		return strV(Ite(app("str.prefixof", SBool, a[1].T, a[0].T), app("str.substr", SStr, a[0].T, StrLen(a[1].T), Sub(StrLen(a[0].T), StrLen(a[1].T))), a[0].T)), nil
	case "ifaceOf":
		// ifaceOf(p): the interface value holding pointer p (as built by the conversion of p to any interface type)
		if a[0].K == VIface {
			return a[0], nil
		}
		return x.makeInterface(st, a[0], a[0].GoT, types.NewInterfaceType(nil, nil)), nil
	case "min":
		return intV(Ite(Le(a[0].T, a[1].T), a[0].T, a[1].T)), nil
	case "max":
		return intV(Ite(Ge(a[0].T, a[1].T), a[0].T, a[1].T)), nil
	case "flag":
		return boolV(BoolT(c.st.Flags[strings.Trim(a[0].T.S, `"`)])), nil
	case "negProto":
		x.Reg.DeclareFun("negProto", []string{SInt}, SStr)
		return strV(app("negProto", SStr, a[0].T)), nil
	case "payload":
		// payload(iface): the concrete value inside an interface whose dynamic type is statically known
		if a[0].K == VIface && a[0].Dyn != nil && a[0].Payload != nil {
			pv := *a[0].Payload
			pv.GoT = a[0].Dyn
			return pv, nil
		}
		if a[0].K != VIface {
			return a[0], nil
		}
		x.declIfaceFns()
		return intV(app("payl", SInt, a[0].T)), nil
	case "sameDynType":
		x.declIfaceFns()
		return boolV(Eq(x.msgTag(a[0]), x.msgTag(a[1]))), nil
	case "IsNil":
		return boolV(x.isNilTerm(a[0])), nil
	case "reliable":
		return boolV(BoolT(!x.Faulty)), nil
	case "fresh":
		// allocated during this call
		r := a[0].T
		if a[0].K == VSlice {
			r = a[0].Ref
		}
		return boolV(Gt(r, x.entryWMOf(c))), nil
	case "row":
		// row(s): the element array of slice s in the current heap (single-component element types)
		if a[0].K != VSlice {
			return Val{}, fmt.Errorf("row(slice)")
		}
		et := a[0].GoT.Underlying().(*types.Slice).Elem()
		cs := comps(et)
		if len(cs) != 1 {
			return Val{}, fmt.Errorf("row(): element type has %d components", len(cs))
		}
		x.registerElemPrefix(elemPrefix(et), et)
		inner := arrSort(SInt, cs[0].Sort)
		return scalar(x.readRow(st, elemPrefix(et), inner, a[0].Ref), nil), nil
	case "off":
		if a[0].K != VSlice {
			return Val{}, fmt.Errorf("off(slice)")
		}
		return intV(a[0].Off), nil
	case "at":
		rs := a[0].T.Sort
		es := rs[len("(Array Int ") : len(rs)-1]
		r := Select(a[0].T, a[1].T, es)
		if es == SStr {
			return strV(r), nil
		}
		return intV(r), nil
	case "backing":
		if a[0].K == VSlice {
			return intV(a[0].Ref), nil
		}
		return intV(a[0].T), nil
	case "isNotFound", "isTemporary", "isDuplicate", "isClosed", "isCtxErr":
		return boolV(x.errPred(call.Fn, a[0].T)), nil
	case "closureOf":
		// closureOf(f, "tls.standardTlsConfig$1"): the function value f is a closure of that function
		f := a[0]
		if f.Fn == nil {
			if cv, ok := closureReg[f.T.S]; ok {
				f = cv
			}
		}
		if f.Fn == nil {
			pn := "cloIs!" + strings.Trim(a[1].T.S, `"`)
			x.ufun(pn, []string{SInt}, SBool)
			return boolV(app(sym(pn), SBool, a[0].T)), nil
		}
		return boolV(BoolT(funcKey(f.Fn) == strings.Trim(a[1].T.S, `"`))), nil
	case "captured":
		// captured(f, "pkg.Fn$1", "name"): current value of the variable name captured by f, a closure of
		// that function. For a closure created on this path it is read from the captured variable; for a
		// function value of unknown origin it is an uninterpreted function of the value (so that a callee's
		// contract can tell its callers what the closure it returns has captured).
		if len(a) != 3 {
			return Val{}, fmt.Errorf("captured expects (f, function key, variable name)")
		}
		f := a[0]
		if f.Fn == nil {
			if cv, ok := closureReg[f.T.S]; ok {
				f = cv
			}
		}
		key := strings.Trim(a[1].T.S, `"`)
		name := strings.Trim(a[2].T.S, `"`)
		cfn := x.Prog.Funcs[key]
		if f.Fn != nil {
			cfn = f.Fn
		}
		if cfn == nil {
			return Val{}, fmt.Errorf("captured: unknown function %s", key)
		}
		curName := name
		hasFV := false
		for _, fv := range cfn.FreeVars {
			hasFV = hasFV || fv.Name() == name
		}
		if !hasFV { // the captured variable was renamed (names.go)
			if cn, kind, ok := x.renamedTo(cfn, name); ok && kind == "freevar" {
				curName = cn
				x.noteRename(cfn, kind, name, cn)
			}
		}
		for i, fv := range cfn.FreeVars {
			if fv.Name() != curName {
				continue
			}
			vt := fv.Type()
			byRef := false
			if pt, ok := vt.Underlying().(*types.Pointer); ok {
				vt, byRef = pt.Elem(), true
			}
			if f.Fn != nil && i < len(f.Bind) {
				if byRef {
					return x.load(st, nil, f.Bind[i], fv.Type()), nil
				}
				return f.Bind[i], nil
			}
			cs := comps(vt)
			ts := make([]Term, len(cs))
			for k, cp := range cs {
				fnm := "cap!" + key + "!" + name + cp.Suffix
				x.ufun(fnm, []string{SInt}, cp.Sort)
				ts[k] = app(sym(fnm), cp.Sort, a[0].T)
			}
			v, _ := unflatten(vt, ts)
			return v, nil
		}
		return Val{}, fmt.Errorf("captured: %s has no free variable %s", key, name)
	case "poolHas":
		// poolHas(pool, cert): cert was added to the certificate pool
		return boolV(x.poolHas(st, a[0].T, a[1].T)), nil
	case "x509Verifies":
		// x509Verifies(leaf, roots, dnsName): leaf.Verify succeeds against the pool for that name
		x.ufun("x509Verifies", []string{SInt, SInt, SStr}, SBool)
		return boolV(app("x509Verifies", SBool, a[0].T, a[1].T, a[2].T)), nil
	case "neverCancelled":
		// neverCancelled(ctx): the context is not cancelled at any time during the call
		x.ufun("neverCancelled", []string{SInt}, SBool)
		return boolV(app("neverCancelled", SBool, a[0].T)), nil
	case "rangeVisited":
		// rangeVisited(k): key k has been yielded by the (unique) map iteration of the function under verification
		if c.fr == nil {
			return Val{}, fmt.Errorf("rangeVisited outside a function body")
		}
		var itv *Val
		for sv, v := range c.fr.Env {
			if _, ok := sv.(*ssa.Range); ok && v.K == VTuple && len(v.Parts) > 1 {
				if itv != nil {
					return Val{}, fmt.Errorf("rangeVisited: more than one map iteration in %s", funcKey(c.fr.Fn))
				}
				vv := v
				itv = &vv
			}
		}
		if itv == nil {
			return Val{}, fmt.Errorf("rangeVisited: no map iteration in scope")
		}
		_, _, ks := x.mapArrays(itv.Parts[0].GoT)
		inner := arrSort(ks, SBool)
		vis := Select(x.heapCur(st, itVisited+"!"+ks, x.itSort(ks)), itv.Parts[1].T, inner)
		return boolV(Select(vis, a[0].T, SBool)), nil
	case "deref":
		// deref(p): the value the pointer p points to
		if _, ok := a[0].GoT.Underlying().(*types.Pointer); !ok {
			return Val{}, fmt.Errorf("deref: not a pointer")
		}
		return x.load(st, nil, a[0], a[0].GoT), nil
	case "mapHas", "mapGet":
		// Go maps: mapHas(m, k), mapGet(m, k)
		mt, ok := a[0].GoT.Underlying().(*types.Map)
		if !ok {
			return Val{}, fmt.Errorf("%s: not a map", call.Fn)
		}
		p, _, ks := x.mapArrays(a[0].GoT)
		kt := flatten(a[1])[0]
		inner := arrSort(ks, SBool)
		has := And(Neq(a[0].T, IntT(0)), Select(Select(x.heapCur(st, p+"!has", arrSort(SInt, inner)), a[0].T, inner), kt, SBool))
		if call.Fn == "mapHas" {
			return boolV(has), nil
		}
		cs := comps(mt.Elem())
		ts := make([]Term, len(cs))
		for i, cp := range cs {
			in2 := arrSort(ks, cp.Sort)
			ts[i] = Select(Select(x.heapCur(st, p+"!val"+cp.Suffix, arrSort(SInt, in2)), a[0].T, in2), kt, cp.Sort)
		}
		v, _ := unflatten(mt.Elem(), ts)
		return v, nil
	case "sinceLoopHead":
		// sinceLoopHead(x): the object (or what the interface value holds) was allocated in the current loop iteration
		if st.LoopWM.S == "" {
			return Val{}, fmt.Errorf("sinceLoopHead outside a loop with an invariant")
		}
		r := a[0].T
		if a[0].K == VSlice {
			r = a[0].Ref
		}
		if a[0].K == VIface {
			x.declIfaceFns()
			r = app("payl", SInt, a[0].T)
			if a[0].Payload != nil && a[0].Payload.K == VScalar && a[0].Payload.T.Sort == SInt {
				r = a[0].Payload.T
			}
		}
		return boolV(Gt(r, st.LoopWM)), nil
	case "mutexHeld":
		// mutexHeld(m): ghost lock counter of the mutex at address m (0: nothing held by this call)
		x.mxRegister()
		return intV(Select(x.heapCur(st, mxHeld, arrSort(SInt, SInt)), a[0].T, SInt)), nil
	case "fromReader":
		// fromReader(b): the bytes were produced by a complete Read of an io.Reader (the random reader)
		x.ufun("fromReader", []string{SStr}, SBool)
		return boolV(app("fromReader", SBool, x.bytesOf(st, a[0]))), nil
	case "hsComplete":
		x.Reg.DeclareFun("hsComplete", []string{SInt}, SBool)
		return boolV(app("hsComplete", SBool, a[0].T)), nil
	case "smHasK", "smGetK":
		// sync.Map model with a raw interface key
		if call.Fn == "smHasK" {
			return boolV(Select(x.smHasArr(st, a[0].T), a[1].T, SBool)), nil
		}
		return Val{K: VIface, T: Select(x.smValArr(st, a[0].T), a[1].T, SInt), GoT: types.NewInterfaceType(nil, nil)}, nil
	case "smWf":
		// smWf(m, "pkg.T"): every key of the sync.Map is a string and every value a non-nil *pkg.T
		x.declIfaceFns()
		mt := x.lookupNamed(strings.Trim(a[1].T.S, `"`))
		if mt == nil {
			return Val{}, fmt.Errorf("smWf: unknown type %s", a[1].T.S)
		}
		pt := types.NewPointer(mt)
		x.declareTagDistinct(pt)
		x.declareTagDistinct(types.Typ[types.String])
		h, v := x.smHasArr(st, a[0].T), x.smValArr(st, a[0].T)
		body := fmt.Sprintf("(forall ((k!wf Int)) (! (=> (select %s k!wf) (and (= (dyntag k!wf) %s) (= (dyntag (select %s k!wf)) %s) (> (payl (select %s k!wf)) 0))) :pattern ((select %s k!wf)) :pattern ((select %s k!wf))))", h.S, x.typeTag(types.Typ[types.String]).S, v.S, x.typeTag(pt).S, v.S, h.S, v.S)
		return boolV(Term{body, SBool}), nil
	case "isStr":
		// isStr(x): the interface value holds a string
		x.declIfaceFns()
		if a[0].K == VIface && a[0].Dyn != nil {
			b, ok := a[0].Dyn.Underlying().(*types.Basic)
			return boolV(BoolT(ok && b.Info()&types.IsString != 0 && types.Identical(a[0].Dyn, types.Typ[types.String]))), nil
		}
		x.declareTagDistinct(types.Typ[types.String])
		return boolV(Eq(app("dyntag", SInt, a[0].T), x.typeTag(types.Typ[types.String]))), nil
	case "unboxStr":
		// unboxStr(x): the string held by the interface value
		x.declIfaceFns()
		x.strboxDecl()
		if a[0].K == VIface && a[0].Payload != nil && a[0].Payload.T.Sort == SStr {
			return strV(a[0].Payload.T), nil
		}
		return strV(app("strunbox", SStr, app("payl", SInt, a[0].T))), nil
	case "dynIs":
		// dynIs(iface, "types.NodeInformation"): the interface holds a pointer to that named type
		x.declIfaceFns()
		mt := x.lookupNamed(strings.Trim(a[1].T.S, `"`))
		if mt == nil {
			return Val{}, fmt.Errorf("dynIs: unknown type %s", a[1].T.S)
		}
		pt := types.NewPointer(mt)
		if a[0].K == VIface && a[0].Dyn != nil {
			return boolV(BoolT(types.Identical(a[0].Dyn, pt))), nil
		}
		x.declareTagDistinct(pt)
		return boolV(Eq(app("dyntag", SInt, a[0].T), x.typeTag(pt))), nil
	case "as":
		// as(iface, "types.NodeInformation"): the pointer held by the interface, typed
		x.declIfaceFns()
		mt := x.lookupNamed(strings.Trim(a[1].T.S, `"`))
		if mt == nil {
			return Val{}, fmt.Errorf("as: unknown type %s", a[1].T.S)
		}
		pt := types.NewPointer(mt)
		if a[0].K == VIface && a[0].Dyn != nil && a[0].Payload != nil && types.Identical(a[0].Dyn, pt) {
			pv := *a[0].Payload
			pv.GoT = pt
			return pv, nil
		}
		if a[0].K != VIface {
			v := a[0]
			v.GoT = pt
			return v, nil
		}
		return scalar(app("payl", SInt, a[0].T), pt), nil
	case "implements":
		// implements(iface, "NodeIdLoader")
		x.declIfaceFns()
		lit := strings.Trim(a[1].T.S, `"`)
		pn := "impl!" + lit
		x.Reg.DeclareFun(pn, []string{SInt}, SBool)
		if mt := x.lookupNamed(lit); mt != nil {
			if it, ok := mt.Underlying().(*types.Interface); ok {
				x.noteImplPred(pn, it)
			}
		}
		return boolV(And(Neq(a[0].T, IntT(0)), app(sym(pn), SBool, app("dyntag", SInt, a[0].T)))), nil
	case "now":
		// now(k): k-th clock reading of the call; now(last): last reading
		return x.evalNow(c, call)
	case "StHas", "StGet":
		return x.evalSt(c, call.Fn, a)
	case "StHadAtEntry":
		// StHadAtEntry(kind, id): ghost storage held id at entry - the id is evaluated in the CURRENT state
		// (unlike old(StHas(kind, id)), which evaluates the id in the entry state as well)
		if c.old == nil {
			return Val{}, fmt.Errorf("StHadAtEntry: no entry state")
		}
		c2 := *c
		c2.inOld = true
		return x.evalSt(&c2, "StHas", a)
	case "sameRec":
		return x.evalSameRec(c, a)
	case "seqEq":
		return x.evalSeqEq(c, a)
	case "tsTime":
		return intV(x.tsTime(st, a[0].T)), nil
	}
	if v, ok, err := x.evalSpecBuiltin(c, call.Fn, a); ok || err != nil {
		return v, err
	}
	if pd, ok := x.CS.Preds[call.Fn]; ok {
		if len(pd.Params) != len(a) {
			return Val{}, fmt.Errorf("%s expects %d arguments", pd.Name, len(pd.Params))
		}
		c2 := *c
		c2.bound = map[string]Val{}
		for k, v := range c.bound {
			c2.bound[k] = v
		}
		for i, pn := range pd.Params {
			c2.bound[pn] = a[i]
		}
		return x.evalExpr(&c2, pd.Body)
	}
	if sf, ok := x.CS.SpecFuncs[call.Fn]; ok {
		var sorts []string
		for _, s := range sf.Args {
			sorts = append(sorts, sortOfName(s))
		}
		x.Reg.DeclareFun("spec!"+sf.Name, sorts, sortOfName(sf.Ret))
		var ts []Term
		for i, v := range a {
			t := v.T
			if i < len(sorts) && sorts[i] == SStr && t.Sort == SInt {
				t = x.bytesContent(st, t)
			}
			if v.K == VSlice {
				t = v.Ref
			}
			ts = append(ts, t)
		}
		r := app(sym("spec!"+sf.Name), sortOfName(sf.Ret), ts...)
		switch r.Sort {
		case SBool:
			return boolV(r), nil
		case SStr:
			return strV(r), nil
		}
		return intV(r), nil
	}
	return Val{}, fmt.Errorf("unknown spec function %s", call.Fn)
}

func (x *Exec) entryWMOf(c *evalCtx) Term {
	if c.old != nil {
		return Add(c.old.AllocBase, IntT(int64(c.old.AllocN)))
	}
	return x.entryWM(c.st)
}

func (x *Exec) evalNow(c *evalCtx, call ECall) (Val, error) {
	st := c.st
	base := 0
	if c.old != nil {
		base = len(c.old.Clock)
	}
	if len(call.Args) == 1 {
		if id, ok := call.Args[0].(EIdent); ok && id.Name == "last" {
			if len(st.Clock) > base {
				return intV(st.Clock[len(st.Clock)-1]), nil
			}
			return intV(x.clockVirtual(st)), nil
		}
		if n, ok := call.Args[0].(EInt); ok {
			k := base + int(n.V)
			if k < len(st.Clock) {
				return intV(st.Clock[k]), nil
			}
			return intV(x.clockVirtual(st)), nil
		}
	}
	return Val{}, fmt.Errorf("now(k) / now(last)")
}

// clockVirtual: a clock value for paths that did not read the clock (any
// instant not earlier than the last reading).
func (x *Exec) clockVirtual(st *State) Term {
	x.Reg.DeclareConst("clk!virtual", SInt)
	return Term{sym("clk!virtual"), SInt}
}

func (x *Exec) evalSeqEq(c *evalCtx, a []Val) (Val, error) {
	if len(a) != 2 || a[0].K != VSlice || a[1].K != VSlice {
		return Val{}, fmt.Errorf("seqEq(slice, slice)")
	}
	st := c.state()
	et := a[0].GoT.Underlying().(*types.Slice).Elem()
	i := "i!q" + strconv.Itoa(x.uniq())
	it := Term{i, SInt}
	i0 := x.idxTerm(a[0].Off, it)
	i1 := x.idxTerm(a[1].Off, it)
	e0 := x.loadAddrPure(st, &Addr{Prefix: elemPrefix(et), Ref: a[0].Ref, Idx: &i0, T: et})
	e1 := x.loadAddrPure(st, &Addr{Prefix: elemPrefix(et), Ref: a[1].Ref, Idx: &i1, T: et})
	eq, err := x.valEq(c, e0, e1)
	if err != nil {
		return Val{}, err
	}
	body := Implies(And(Ge(it, IntT(0)), Lt(it, a[0].Len)), eq)
	return boolV(And(Eq(a[0].Len, a[1].Len), Term{"(forall ((" + i + " Int)) " + body.S + ")", SBool})), nil
}

// boundSpecRef: heap well-formedness facts for references read inside contract
// expressions: an object that existed at entry only references objects that
// existed at entry (as long as the field array has not been written).
func (x *Exec) boundSpecRef(c *evalCtx, st *State, a *Addr, v Val) {
	if c.st == nil || x.Mode == "summary" {
		return
	}
	var r Term
	switch v.K {
	case VScalar:
		if v.T.Sort != SInt {
			return
		}
		switch v.GoT.Underlying().(type) {
		case *types.Pointer, *types.Slice, *types.Map:
			r = v.T
		default:
			return
		}
	case VSlice:
		r = v.Ref
	default:
		return
	}
	if _, lit := litInt(r); lit {
		return
	}
	if strings.Contains(r.S, "!q") {
		return // mentions a bound variable
	}
	for _, cp := range comps(a.T) {
		if _, w := st.Heap[a.Prefix+cp.Suffix]; w {
			return
		}
	}
	o, known := c.st.Older[a.Ref.S]
	if !(isEntrySymbol(a.Ref.S) || (known && o == 0)) {
		return
	}
	if _, done := c.st.Older[r.S]; done {
		return
	}
	c.st.assume(And(Ge(r, IntT(0)), Le(r, c.st.WM0)))
	c.st.Older[r.S] = 0
}
