package main

import (
	"go/types"
)

// Specifications of crypto / encoding library functions (idealised, trusted;
// DESIGN.md section 4). Concrete preconditions of the real functions (e.g.
// ed25519.Verify panics on a key that is not 32 bytes) are obligations.

func (x *Exec) ifaceWithPayload(st *State, t types.Type, tagCond func(tag Term) Term, payload Term, prefix string) Val {
	x.declIfaceFns()
	id := x.fresh(st, prefix, SInt)
	st.assume(Gt(id, IntT(0)))
	st.assume(Eq(app("payl", SInt, id), payload))
	if tagCond != nil {
		st.assume(tagCond(app("dyntag", SInt, id)))
	}
	return Val{K: VIface, T: id, GoT: t}
}

func (x *Exec) namedType(pkg, name string) types.Type {
	for _, p := range x.Prog.Prog.AllPackages() {
		if p.Pkg.Path() == pkg {
			if o := p.Pkg.Scope().Lookup(name); o != nil {
				return o.Type()
			}
		}
	}
	return nil
}

// payloadBytes: the bytes object inside an interface value holding a []byte-like key.
func (x *Exec) payloadBytes(v Val) Term {
	if v.K == VIface && v.Payload != nil && v.Payload.K == VScalar {
		return v.Payload.T
	}
	if v.K == VScalar {
		return v.T
	}
	x.declIfaceFns()
	return app("payl", SInt, v.T)
}

const certT = "crypto/x509.Certificate"

func (x *Exec) certType() types.Type { return x.namedType("crypto/x509", "Certificate") }

func (x *Exec) certRef(content Term) Term {
	fn := x.ufun("certRef", []string{SStr}, SInt)
	x.Reg.Axiom("certRefPos", "(forall ((s String)) (! (> ("+fn+" s) 0) :pattern (("+fn+" s))))")
	x.Reg.Axiom("certRefInj", "(forall ((a String) (b String)) (! (=> (= ("+fn+" a) ("+fn+" b)) (= a b)) :pattern (("+fn+" a) ("+fn+" b))))")
	return app(fn, SInt, content)
}

// ghost fields of a certificate object
const (
	certPubPrefix    = "F!x509.Certificate!$pubkey"    // String: raw public key it certifies
	certIssuerPrefix = "F!x509.Certificate!$issuerkey" // String: private key that signed it
)

func init() {
	ed := "crypto/ed25519"
	reg(ed+".Verify", func(x *Exec, st *State, c *CallCtx) []Outcome {
		declCrypto(x)
		pk := x.bc(st, c.Args[0])
		okLen := Eq(StrLen(pk), IntT(32))
		if x.nopanicActive(c.Fr) {
			x.oblige(st, x.obName(c.Fr, "pre.ed25519.Verify.keylen."+c.Site), okLen, "prove")
		}
		st.assume(okLen)
		return one(st, bval(app("Verify", SBool, pk, x.bc(st, c.Args[1]), x.bc(st, c.Args[2]))))
	})
	reg(ed+".GenerateKey", func(x *Exec, st *State, c *CallCtx) []Outcome {
		declCrypto(x)
		fail, fe := x.errFork(st, "genkey")
		pubT, privT := c.ResT.At(0).Type(), c.ResT.At(1).Type()
		k := x.fresh(st, "edpriv", SStr)
		st.assume(Eq(StrLen(k), IntT(64)))
		st.assume(Eq(StrLen(app("edpub", SStr, k)), IntT(32)))
		priv := x.newBytes(st, k, privT)
		pub := x.newBytes(st, app("edpub", SStr, k), pubT)
		return []Outcome{{St: st, Res: []Val{pub, priv, nilErr()}}, {St: fail, Res: []Val{scalar(IntT(0), pubT), scalar(IntT(0), privT), fe}}}
	})
	reg("("+ed+".PrivateKey).Sign", func(x *Exec, st *State, c *CallCtx) []Outcome {
		declCrypto(x)
		fail, fe := x.errFork(st, "sign")
		bt := c.ResT.At(0).Type()
		r := x.fresh(st, "signrand", SStr)
		sig := x.newBytes(st, app("edsign", SStr, x.bc(st, c.Args[0]), x.bc(st, c.Args[2]), r), bt)
		return []Outcome{{St: st, Res: []Val{sig, nilErr()}}, {St: fail, Res: []Val{scalar(IntT(0), bt), fe}}}
	})
	reg("iface:crypto.Signer.Sign", func(x *Exec, st *State, c *CallCtx) []Outcome {
		// signer of unknown dynamic type: treated as an ed25519 private key held in the payload
		declCrypto(x)
		fail, fe := x.errFork(st, "sign")
		bt := c.ResT.At(0).Type()
		key := x.bytesContent(st, x.payloadBytes(c.Args[0]))
		r := x.fresh(st, "signrand", SStr)
		sig := x.newBytes(st, app("edsign", SStr, key, x.bc(st, c.Args[2]), r), bt)
		return []Outcome{{St: st, Res: []Val{sig, nilErr()}}, {St: fail, Res: []Val{scalar(IntT(0), bt), fe}}}
	})
	reg("("+ed+".PrivateKey).Public", func(x *Exec, st *State, c *CallCtx) []Outcome {
		declCrypto(x)
		pubT := x.namedType(ed, "PublicKey")
		pub := x.newBytes(st, app("edpub", SStr, x.bc(st, c.Args[0])), pubT)
		return one(st, x.makeInterface(st, pub, pubT, c.ResT.At(0).Type()))
	})

	x5 := "crypto/x509"
	reg(x5+".ParsePKIXPublicKey", func(x *Exec, st *State, c *CallCtx) []Outcome {
		declCrypto(x)
		content := x.bc(st, c.Args[0])
		fail, fe := x.errFork(st, "parsepkix")
		fail.assume(Not(app("okPk", SBool, content)))
		st.assume(app("okPk", SBool, content))
		pubT := x.namedType(ed, "PublicKey")
		raw := x.newBytes(st, app("edpk", SStr, content), pubT)
		tag := x.typeTag(pubT)
		x.declareTagDistinct(pubT)
		v := x.ifaceWithPayload(st, c.ResT.At(0).Type(), func(dt Term) Term { return Eq(Eq(dt, tag), app("isEd", SBool, content)) }, raw.T, "pubkey")
		return []Outcome{{St: st, Res: []Val{v, nilErr()}}, {St: fail, Res: []Val{Val{K: VIface, T: IntT(0), GoT: c.ResT.At(0).Type()}, fe}}}
	})
	reg(x5+".MarshalPKIXPublicKey", func(x *Exec, st *State, c *CallCtx) []Outcome {
		declCrypto(x)
		fail, fe := x.errFork(st, "marshalpkix")
		bt := c.ResT.At(0).Type()
		raw := x.bytesContent(st, x.payloadBytes(c.Args[0]))
		out := x.newBytes(st, app("pkixOf", SStr, raw), bt)
		return []Outcome{{St: st, Res: []Val{out, nilErr()}}, {St: fail, Res: []Val{scalar(IntT(0), bt), fe}}}
	})
	reg(x5+".MarshalPKCS8PrivateKey", func(x *Exec, st *State, c *CallCtx) []Outcome {
		declCrypto(x)
		x.ufun("pkcs8", []string{SStr}, SStr)
		x.ufun("unpkcs8", []string{SStr}, SStr)
		x.ufun("okPkcs8", []string{SStr}, SBool)
		x.ufun("isEdPriv", []string{SStr}, SBool)
		x.Reg.Axiom("pkcs8RT", "(forall ((k String)) (! (and (= (unpkcs8 (pkcs8 k)) k) (okPkcs8 (pkcs8 k)) (isEdPriv (pkcs8 k)) (> (str.len (pkcs8 k)) 0)) :pattern ((pkcs8 k))))")
		fail, fe := x.errFork(st, "marshalpkcs8")
		bt := c.ResT.At(0).Type()
		raw := x.bytesContent(st, x.payloadBytes(c.Args[0]))
		out := x.newBytes(st, app("pkcs8", SStr, raw), bt)
		return []Outcome{{St: st, Res: []Val{out, nilErr()}}, {St: fail, Res: []Val{scalar(IntT(0), bt), fe}}}
	})
	reg(x5+".ParsePKCS8PrivateKey", func(x *Exec, st *State, c *CallCtx) []Outcome {
		declCrypto(x)
		x.ufun("pkcs8", []string{SStr}, SStr)
		x.ufun("unpkcs8", []string{SStr}, SStr)
		x.ufun("okPkcs8", []string{SStr}, SBool)
		x.ufun("isEdPriv", []string{SStr}, SBool)
		content := x.bc(st, c.Args[0])
		fail, fe := x.errFork(st, "parsepkcs8")
		fail.assume(Not(app("okPkcs8", SBool, content)))
		st.assume(app("okPkcs8", SBool, content))
		privT := x.namedType(ed, "PrivateKey")
		raw := x.newBytes(st, app("unpkcs8", SStr, content), privT)
		tag := x.typeTag(privT)
		x.declareTagDistinct(privT)
		v := x.ifaceWithPayload(st, c.ResT.At(0).Type(), func(dt Term) Term { return Eq(Eq(dt, tag), app("isEdPriv", SBool, content)) }, raw.T, "privkey")
		return []Outcome{{St: st, Res: []Val{v, nilErr()}}, {St: fail, Res: []Val{Val{K: VIface, T: IntT(0), GoT: c.ResT.At(0).Type()}, fe}}}
	})
	reg(x5+".ParseCertificate", func(x *Exec, st *State, c *CallCtx) []Outcome {
		content := x.bc(st, c.Args[0])
		fail, fe := x.errFork(st, "parsecert")
		ct := x.certType()
		pt := c.ResT.At(0).Type()
		ref := x.certRef(content)
		// the parsed certificate's Raw is the input
		rawRef := x.loadAddrPure(st, &Addr{Prefix: fieldPrefix(ct, "Raw"), Ref: ref, T: c.Args[0].GoT})
		st.assume(Eq(x.bytesContent(st, rawRef.T), content))
		return []Outcome{{St: st, Res: []Val{scalar(ref, pt), nilErr()}}, {St: fail, Res: []Val{scalar(IntT(0), pt), fe}}}
	})
	reg(x5+".CreateCertificate", func(x *Exec, st *State, c *CallCtx) []Outcome {
		declCrypto(x)
		fail, fe := x.errFork(st, "createcert")
		bt := c.ResT.At(0).Type()
		ct := x.certType()
		tmpl := c.Args[1].T
		der := x.fresh(st, "der", SStr)
		st.assume(Gt(StrLen(der), IntT(0)))
		ref := x.certRef(der)
		// the new certificate is a new object
		st.assume(Gt(ref, Add(st.AllocBase, IntT(int64(st.AllocN)))))
		x.bumpAbove(st, ref)
		st.Fresh[ref.S] = true
		for _, fn := range []string{"NotBefore", "NotAfter", "SubjectKeyId", "AuthorityKeyId", "ExtKeyUsage", "IsCA", "BasicConstraintsValid", "KeyUsage", "DNSNames", "Subject", "SerialNumber"} {
			f := fieldByName(ct, fn)
			if f == nil {
				continue
			}
			v := x.loadAddrPure(st, &Addr{Prefix: fieldPrefix(ct, fn), Ref: tmpl, T: f.Type()})
			x.storeAddr(st, &Addr{Prefix: fieldPrefix(ct, fn), Ref: ref, T: f.Type()}, v)
		}
		out := x.newBytes(st, der, bt)
		x.storeAddr(st, &Addr{Prefix: fieldPrefix(ct, "Raw"), Ref: ref, T: bt}, out)
		x.registerPrefix(certPubPrefix, types.Typ[types.String])
		x.registerPrefix(certIssuerPrefix, types.Typ[types.String])
		x.writeComp(st, certPubPrefix, SStr, ref, x.bytesContent(st, x.payloadBytes(c.Args[3])))
		x.writeComp(st, certIssuerPrefix, SStr, ref, x.bytesContent(st, x.payloadBytes(c.Args[4])))
		return []Outcome{{St: st, Res: []Val{out, nilErr()}}, {St: fail, Res: []Val{scalar(IntT(0), bt), fe}}}
	})

	kp := "iface:nodeenrollment.X25519KeyProducer."
	reg(kp+"X25519EncryptionKey", func(x *Exec, st *State, c *CallCtx) []Outcome {
		declCrypto(x)
		ks := c.Args[0].T
		x.ufun("kp!curOk", []string{SInt}, SBool)
		x.ufun("kp!curId", []string{SInt}, SStr)
		x.ufun("kp!curKey", []string{SInt}, SStr)
		fail, fe := x.errFork(st, "x25519")
		fail.assume(Not(app("kp!curOk", SBool, ks)))
		st.assume(app("kp!curOk", SBool, ks))
		bt := c.ResT.At(1).Type()
		key := x.newBytes(st, app("kp!curKey", SStr, ks), bt)
		st.assume(Eq(StrLen(app("kp!curKey", SStr, ks)), IntT(32)))
		return []Outcome{{St: st, Res: []Val{strV(app("kp!curId", SStr, ks)), key, nilErr()}}, {St: fail, Res: []Val{strV(StrT("")), scalar(IntT(0), bt), fe}}}
	})
	reg(kp+"PreviousX25519EncryptionKey", func(x *Exec, st *State, c *CallCtx) []Outcome {
		declCrypto(x)
		ks := c.Args[0].T
		x.ufun("kp!prevOk", []string{SInt}, SBool)
		x.ufun("kp!prevId", []string{SInt}, SStr)
		x.ufun("kp!prevKey", []string{SInt}, SStr)
		fail, fe := x.errFork(st, "x25519prev")
		fail.assume(Not(app("kp!prevOk", SBool, ks)))
		st.assume(app("kp!prevOk", SBool, ks))
		bt := c.ResT.At(1).Type()
		key := x.newBytes(st, app("kp!prevKey", SStr, ks), bt)
		st.assume(Eq(StrLen(app("kp!prevKey", SStr, ks)), IntT(32)))
		return []Outcome{{St: st, Res: []Val{strV(app("kp!prevId", SStr, ks)), key, nilErr()}}, {St: fail, Res: []Val{strV(StrT("")), scalar(IntT(0), bt), fe}}}
	})

	b64 := "encoding/base64"
	reg("(*"+b64+".Encoding).EncodeToString", func(x *Exec, st *State, c *CallCtx) []Outcome {
		declCrypto(x)
		return one(st, strV(app("b64", SStr, x.bc(st, c.Args[1]))))
	})
	reg("(*"+b64+".Encoding).DecodeString", func(x *Exec, st *State, c *CallCtx) []Outcome {
		declCrypto(x)
		s := c.Args[1].T
		fail, fe := x.errFork(st, "b64decode")
		fail.assume(Not(app("isB64", SBool, s)))
		st.assume(app("isB64", SBool, s))
		bt := c.ResT.At(0).Type()
		out := x.newBytes(st, app("unb64", SStr, s), bt)
		return []Outcome{{St: st, Res: []Val{out, nilErr()}}, {St: fail, Res: []Val{scalar(IntT(0), bt), fe}}}
	})
	b58 := "github.com/mr-tron/base58"
	reg(b58+".FastBase58Encoding", func(x *Exec, st *State, c *CallCtx) []Outcome {
		declCrypto(x)
		return one(st, strV(app("b58", SStr, x.bc(st, c.Args[0]))))
	})
	reg(b58+".FastBase58Decoding", func(x *Exec, st *State, c *CallCtx) []Outcome {
		declCrypto(x)
		s := c.Args[0].T
		fail, fe := x.errFork(st, "b58decode")
		fail.assume(Not(app("isB58", SBool, s)))
		st.assume(app("isB58", SBool, s))
		bt := c.ResT.At(0).Type()
		out := x.newBytes(st, app("unb58", SStr, s), bt)
		return []Outcome{{St: st, Res: []Val{out, nilErr()}}, {St: fail, Res: []Val{scalar(IntT(0), bt), fe}}}
	})
	reg("math/rand.Int63", func(x *Exec, st *State, c *CallCtx) []Outcome {
		r := x.fresh(st, "rnd", SInt)
		st.assume(Ge(r, IntT(0)))
		return one(st, intV(r))
	})
	reg("math/big.NewInt", func(x *Exec, st *State, c *CallCtx) []Outcome {
		return one(st, scalar(x.alloc(st), c.ResT.At(0).Type()))
	})
	// io.Reader.Read on a buffer: contents arbitrary, length preserved; n arbitrary in [0, len]
	reg("iface:io.Reader.Read", func(x *Exec, st *State, c *CallCtx) []Outcome {
		buf := c.Args[1]
		fail := st.clone()
		fe := x.newErr(fail, "read")
		nf := x.fresh(fail, "nread", SInt)
		oldc := x.bytesContent(st, buf.T)
		for _, s := range []*State{st, fail} {
			nc := x.fresh(s, "readbuf", SStr)
			s.assume(Eq(StrLen(nc), StrLen(oldc)))
			x.writeComp(s, bytesArr, SStr, buf.T, nc)
			delete(s.Fwd, bytesArr+"@"+buf.T.S)
		}
		fail.assume(And(Ge(nf, IntT(0)), Le(nf, StrLen(oldc))))
		n := x.fresh(st, "nread", SInt)
		st.assume(And(Ge(n, IntT(0)), Le(n, StrLen(oldc))))
		// ghost: a buffer that was filled completely holds bytes that came from the reader (spec: fromReader)
		x.ufun("fromReader", []string{SStr}, SBool)
		st.assume(Implies(Eq(n, StrLen(oldc)), app("fromReader", SBool, x.bytesContent(st, buf.T))))
		return []Outcome{{St: st, Res: []Val{intV(n), nilErr()}}, {St: fail, Res: []Val{intV(nf), fe}}}
	})
}

func fieldByName(t types.Type, name string) *types.Var {
	s, ok := t.Underlying().(*types.Struct)
	if !ok {
		return nil
	}
	for i := 0; i < s.NumFields(); i++ {
		if s.Field(i).Name() == name {
			return s.Field(i)
		}
	}
	return nil
}

// crypto/ecdh (X25519): keys are objects with a ghost raw value.
const (
	ecdhPubPrefix  = "F!ecdh.PublicKey!$raw"
	ecdhPrivPrefix = "F!ecdh.PrivateKey!$raw"
)

func init() {
	ec := "crypto/ecdh"
	reg(ec+".X25519", func(x *Exec, st *State, c *CallCtx) []Outcome {
		id := x.Reg.DeclareConst("G!ecdh.X25519curve", SInt)
		x.Reg.Axiom("x25519curve", Gt(id, IntT(0)).S)
		return one(st, Val{K: VIface, T: id, GoT: c.ResT.At(0).Type()})
	})
	reg("iface:"+ec+".Curve.NewPublicKey", func(x *Exec, st *State, c *CallCtx) []Outcome {
		declCrypto(x)
		raw := x.bc(st, c.Args[1])
		fail, fe := x.errFork(st, "newpub")
		fail.assume(Neq(StrLen(raw), IntT(32)))
		st.assume(Eq(StrLen(raw), IntT(32)))
		x.registerPrefix(ecdhPubPrefix, types.Typ[types.String])
		r := x.alloc(st)
		x.writeComp(st, ecdhPubPrefix, SStr, r, raw)
		pt := c.ResT.At(0).Type()
		return []Outcome{{St: st, Res: []Val{scalar(r, pt), nilErr()}}, {St: fail, Res: []Val{scalar(IntT(0), pt), fe}}}
	})
	reg("iface:"+ec+".Curve.NewPrivateKey", func(x *Exec, st *State, c *CallCtx) []Outcome {
		declCrypto(x)
		raw := x.bc(st, c.Args[1])
		fail, fe := x.errFork(st, "newpriv")
		fail.assume(Neq(StrLen(raw), IntT(32)))
		st.assume(Eq(StrLen(raw), IntT(32)))
		x.registerPrefix(ecdhPrivPrefix, types.Typ[types.String])
		r := x.alloc(st)
		x.writeComp(st, ecdhPrivPrefix, SStr, r, raw)
		pt := c.ResT.At(0).Type()
		return []Outcome{{St: st, Res: []Val{scalar(r, pt), nilErr()}}, {St: fail, Res: []Val{scalar(IntT(0), pt), fe}}}
	})
	reg("(*"+ec+".PrivateKey).ECDH", func(x *Exec, st *State, c *CallCtx) []Outcome {
		declCrypto(x)
		x.Reg.Axiom("dhLen", "(forall ((a String) (b String)) (! (= (str.len (dh a b)) 32) :pattern ((dh a b))))")
		fail, fe := x.errFork(st, "ecdh")
		x.registerPrefix(ecdhPrivPrefix, types.Typ[types.String])
		x.registerPrefix(ecdhPubPrefix, types.Typ[types.String])
		priv := x.readComp(st, ecdhPrivPrefix, SStr, c.Args[0].T)
		pub := x.readComp(st, ecdhPubPrefix, SStr, c.Args[1].T)
		bt := c.ResT.At(0).Type()
		out := x.newBytes(st, app("dh", SStr, priv, pub), bt)
		return []Outcome{{St: st, Res: []Val{out, nilErr()}}, {St: fail, Res: []Val{scalar(IntT(0), bt), fe}}}
	})
	reg("(*"+ec+".PrivateKey).PublicKey", func(x *Exec, st *State, c *CallCtx) []Outcome {
		declCrypto(x)
		x.Reg.Axiom("xpubLen", "(forall ((a String)) (! (= (str.len (xpub a)) 32) :pattern ((xpub a))))")
		x.registerPrefix(ecdhPrivPrefix, types.Typ[types.String])
		x.registerPrefix(ecdhPubPrefix, types.Typ[types.String])
		priv := x.readComp(st, ecdhPrivPrefix, SStr, c.Args[0].T)
		r := x.alloc(st)
		x.writeComp(st, ecdhPubPrefix, SStr, r, app("xpub", SStr, priv))
		return one(st, scalar(r, c.ResT.At(0).Type()))
	})
	reg("(*"+ec+".PublicKey).Bytes", func(x *Exec, st *State, c *CallCtx) []Outcome {
		x.registerPrefix(ecdhPubPrefix, types.Typ[types.String])
		return one(st, x.newBytes(st, x.readComp(st, ecdhPubPrefix, SStr, c.Args[0].T), c.ResT.At(0).Type()))
	})
}

const hmacKeyPrefix = "F!hmac.Hash!$key"

func init() {
	reg("crypto/hmac.New", func(x *Exec, st *State, c *CallCtx) []Outcome {
		declCrypto(x)
		x.registerPrefix(hmacKeyPrefix, types.Typ[types.String])
		r := x.alloc(st)
		x.writeComp(st, hmacKeyPrefix, SStr, r, x.bc(st, c.Args[1]))
		x.declIfaceFns()
		id := x.fresh(st, "hmac", SInt)
		st.assume(Gt(id, IntT(0)))
		st.assume(Eq(app("payl", SInt, id), r))
		return one(st, Val{K: VIface, T: id, GoT: c.ResT.At(0).Type()})
	})
	reg("iface:hash.Hash.Sum", func(x *Exec, st *State, c *CallCtx) []Outcome {
		declCrypto(x)
		x.registerPrefix(hmacKeyPrefix, types.Typ[types.String])
		x.declIfaceFns()
		key := x.readComp(st, hmacKeyPrefix, SStr, app("payl", SInt, c.Args[0].T))
		return one(st, x.newBytes(st, app("hmacSum", SStr, key, x.bc(st, c.Args[1])), c.ResT.At(0).Type()))
	})
}

// (*x509.Certificate).Verify(opts): an uninterpreted relation of the leaf, the
// root pool and the DNS name of the options (TRUSTED: chain building, validity
// windows and key usages of crypto/x509 are not modelled; the KeyUsages and
// CurrentTime fields of the options are not part of the relation).
func init() {
	reg("(*crypto/x509.Certificate).Verify", func(x *Exec, st *State, c *CallCtx) []Outcome {
		x.ufun("x509Verifies", []string{SInt, SInt, SStr}, SBool)
		leaf, vo := c.Args[0], c.Args[1]
		roots, dns := IntT(0), StrT("")
		if vo.K == VStruct {
			for i, f := range structFields(vo.GoT) {
				switch f.Name() {
				case "Roots":
					roots = vo.Parts[i].T
				case "DNSName":
					dns = vo.Parts[i].T
				}
			}
		}
		ok := app("x509Verifies", SBool, leaf.T, roots, dns)
		fail, fe := x.errFork(st, "x509verify")
		fail.assume(Not(ok))
		st.assume(ok)
		ct := c.ResT.At(0).Type()
		chains := x.symValue(st, "chains", ct, false)
		x.bumpForVal(st, chains)
		return []Outcome{{St: st, Res: []Val{chains, nilErr()}}, {St: fail, Res: []Val{zeroVal(ct), fe}}}
	})
}

// x509.CertPool as a ghost set of certificate objects:
//
//	CP!has : pool -> (Array Int Bool)
//
// NewCertPool: empty; AddCert(c): adds c. (TRUSTED: what Verify does with the
// pool is inside crypto/x509.) Spec: poolHas(pool, cert).
const cpHas = "CP!has"

var cpSort = arrSort(SInt, arrSort(SInt, SBool))

func (x *Exec) cpRegister() {
	if _, ok := prefixRegistry["CP"]; !ok {
		prefixRegistry["CP"] = [][2]string{{cpHas, cpSort}}
	}
}

func init() {
	reg("crypto/x509.NewCertPool", func(x *Exec, st *State, c *CallCtx) []Outcome {
		x.cpRegister()
		r := x.alloc(st)
		inner := arrSort(SInt, SBool)
		a := x.heapCur(st, cpHas, cpSort)
		x.heapSet(st, cpHas, StoreT(a, r, Term{"((as const " + inner + ") false)", inner}))
		return one(st, scalar(r, c.ResT.At(0).Type()))
	})
	reg("(*crypto/x509.CertPool).AddCert", func(x *Exec, st *State, c *CallCtx) []Outcome {
		x.cpRegister()
		pool, cert := c.Args[0].T, c.Args[1].T
		if x.nopanicActive(c.Fr) {
			x.oblige(st, x.obName(c.Fr, "panic.nil.AddCert."+c.Site), Neq(cert, IntT(0)), "prove")
		}
		st.assume(Neq(cert, IntT(0)))
		inner := arrSort(SInt, SBool)
		a := x.heapCur(st, cpHas, cpSort)
		x.heapSet(st, cpHas, StoreT(a, pool, StoreT(Select(a, pool, inner), cert, BoolT(true))))
		if !st.Fresh[pool.S] {
			st.Dirty[cpHas] = true
		}
		return one(st)
	})
}

func (x *Exec) poolHas(st *State, pool, cert Term) Term {
	x.cpRegister()
	return Select(Select(x.heapCur(st, cpHas, cpSort), pool, arrSort(SInt, SBool)), cert, SBool)
}
