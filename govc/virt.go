package main

import (
	"go/types"
)

// Decoded ("virtual") messages. What proto.Unmarshal yields for wire content c
// as a message of type T is described by uninterpreted functions of c, one per
// field (no heap objects are involved, so the description does not depend on
// heap versions):
//
//	[]byte field      dec!T!f(c)  : String   (content)
//	scalar field      dec!T!f(c)  : Int / Bool / String
//	*Timestamp field  dec!T!f!nil(c) : Bool, dec!T!f!ns(c) : Int
//	*types.X field    dec!T!f!nil(c) : Bool, fields of the nested message as dec!T!f.g(c)
//	other references  dec!T!f...(c) : opaque components (shared, never inspected)
//
// proto.Marshal(m) yields content mc with dec(mc) == fields of m; Unmarshal
// builds fresh objects from dec. Unmarshal(Marshal(m)) == m follows.

type vfield struct {
	f    *types.Var
	name string // function name prefix
}

func (x *Exec) decFn(name string, sort string, content Term) Term {
	x.ufun(name, []string{SStr}, sort)
	return app(sym(name), sort, content)
}

type fieldKind int

const (
	fkBytes fieldKind = iota
	fkTimestamp
	fkNested
	fkOpaque
)

func classifyField(t types.Type) fieldKind {
	if isByteSlice(t) {
		return fkBytes
	}
	if p, ok := t.Underlying().(*types.Pointer); ok {
		if isTimestampType(p.Elem()) {
			return fkTimestamp
		}
		if _, ok := isTypesMsgPtr(t); ok {
			return fkNested
		}
	}
	return fkOpaque
}

// decodeInto stores the decoded fields of content (as type t, function name prefix pfx) into the object at ref.
func (x *Exec) decodeInto(st *State, t types.Type, pfx string, content Term, ref Term, depth int) {
	for _, f := range protoFields(t) {
		name := pfx + "!" + f.Name()
		a := &Addr{Prefix: fieldPrefix(t, f.Name()), Ref: ref, T: f.Type()}
		switch classifyField(f.Type()) {
		case fkBytes:
			c := x.decFn(name, SStr, content)
			x.Reg.Axiom("decEmpty:"+name, "(= ("+sym(name)+" \"\") \"\")")
			nb := x.alloc(st)
			x.writeComp(st, bytesArr, SStr, nb, c)
			x.storeAddr(st, a, scalar(Ite(Eq(c, StrT("")), IntT(0), nb), f.Type()))
		case fkTimestamp:
			isNil := x.decFn(name+"!nil", SBool, content)
			ns := x.decFn(name+"!ns", SInt, content)
			nt := x.alloc(st)
			x.zeroStruct(st, f.Type().Underlying().(*types.Pointer).Elem(), nt)
			x.tsSet(st, nt, ns)
			x.storeAddr(st, a, scalar(Ite(isNil, IntT(0), nt), f.Type()))
		case fkNested:
			mt, _ := isTypesMsgPtr(f.Type())
			isNil := x.decFn(name+"!nil", SBool, content)
			if depth >= 3 {
				x.storeAddr(st, a, scalar(IntT(0), f.Type()))
				continue
			}
			no := x.alloc(st)
			x.zeroStruct(st, mt, no)
			x.decodeInto(st, mt, name, content, no, depth+1)
			x.storeAddr(st, a, scalar(Ite(isNil, IntT(0), no), f.Type()))
		default:
			cs := comps(f.Type())
			ts := make([]Term, len(cs))
			for i, cp := range cs {
				ts[i] = x.decFn(name+cp.Suffix, cp.Sort, content)
			}
			if len(cs) == 0 {
				continue
			}
			v, _ := unflatten(f.Type(), ts)
			x.decorateOptField(st, &v)
			x.storeAddr(st, a, v)
		}
	}
}

// sameAsDecoded: the message at ref has exactly the decoded fields of content.
func (x *Exec) sameAsDecoded(st *State, t types.Type, pfx string, content Term, ref Term, depth int) Term {
	eq := BoolT(true)
	for _, f := range protoFields(t) {
		name := pfx + "!" + f.Name()
		v := x.loadAddrPure(st, &Addr{Prefix: fieldPrefix(t, f.Name()), Ref: ref, T: f.Type()})
		switch classifyField(f.Type()) {
		case fkBytes:
			eq = And(eq, Eq(x.bytesContent(st, v.T), x.decFn(name, SStr, content)))
			x.Reg.Axiom("decEmpty:"+name, "(= ("+sym(name)+" \"\") \"\")")
		case fkTimestamp:
			isNil := x.decFn(name+"!nil", SBool, content)
			ns := x.decFn(name+"!ns", SInt, content)
			eq = And(eq, Eq(Eq(v.T, IntT(0)), isNil), Implies(Not(isNil), Eq(x.tsTime(st, v.T), ns)))
		case fkNested:
			mt, _ := isTypesMsgPtr(f.Type())
			isNil := x.decFn(name+"!nil", SBool, content)
			eq = And(eq, Eq(Eq(v.T, IntT(0)), isNil))
			if depth < 3 {
				eq = And(eq, Implies(Not(isNil), x.sameAsDecoded(st, mt, name, content, v.T, depth+1)))
			}
		default:
			cs := comps(f.Type())
			fa := flatten(v)
			for i, cp := range cs {
				eq = And(eq, Eq(fa[i], x.decFn(name+cp.Suffix, cp.Sort, content)))
			}
		}
	}
	return eq
}

func decPrefix(t types.Type) string { return "dec!" + typeName(t) }
