package main

import (
	"fmt"
	"go/types"
	"strings"

	"golang.org/x/tools/go/ssa"
)

type VKind int

const (
	VScalar VKind = iota // Int / Bool / String term; pointers, bytes refs, maps, chans are Int
	VSlice               // non-byte slice: ref, off, len, cap
	VStruct              // struct by value
	VTuple
	VAddr  // address of a field / element / cell (engine level)
	VFunc  // function value; T is its Int identity
	VIface // interface value; T is its Int identity
)

type Addr struct {
	Prefix string     // heap array prefix, e.g. F!types.NodeInformation!Id or E!string or C!int
	Ref    Term       // object ref
	Idx    *Term      // element index (elements only)
	T      types.Type // type of the location
}

type OptApp struct {
	Fn   *ssa.Function
	Bind []Val
}

// OptAbs is the abstract value of a []Option: an opaque base list followed by
// statically known option closures.
type OptAbs struct {
	Base Term // Int identity of the unknown prefix list
	Apps []OptApp
	// Unknown: at least one appended element was not statically known
	Unknown bool
}

type Val struct {
	K   VKind
	T   Term
	GoT types.Type
	// slices
	Ref, Off, Len, Cap Term
	Abs                *OptAbs
	// struct / tuple
	Parts []Val
	// address
	A *Addr
	// func
	Fn   *ssa.Function
	Bind []Val
	// iface: statically known dynamic type and payload
	Dyn     types.Type
	Payload *Val
	// Tag: marks values produced by library specs (e.g. option closures of go-kms-wrapping)
	Tag string
}

func scalar(t Term, gt types.Type) Val { return Val{K: VScalar, T: t, GoT: gt} }

func (v Val) String() string {
	switch v.K {
	case VScalar, VFunc, VIface:
		return v.T.S
	case VSlice:
		return fmt.Sprintf("slice(%s,%s,%s,%s)", v.Ref.S, v.Off.S, v.Len.S, v.Cap.S)
	case VStruct, VTuple:
		var ps []string
		for _, p := range v.Parts {
			ps = append(ps, p.String())
		}
		return "{" + strings.Join(ps, ", ") + "}"
	case VAddr:
		return "&" + v.A.Prefix + "@" + v.A.Ref.S
	}
	return "?"
}

// ---------------------------------------------------------------- type classification

func isByteSlice(t types.Type) bool {
	s, ok := t.Underlying().(*types.Slice)
	if !ok {
		return false
	}
	b, ok := s.Elem().Underlying().(*types.Basic)
	return ok && (b.Kind() == types.Uint8)
}

func isNamed(t types.Type, pkg, name string) bool {
	n, ok := t.(*types.Named)
	if !ok {
		if a, ok2 := t.(*types.Alias); ok2 {
			return isNamed(types.Unalias(a), pkg, name)
		}
		return false
	}
	o := n.Obj()
	return o.Name() == name && o.Pkg() != nil && o.Pkg().Path() == pkg
}

func isTimeTime(t types.Type) bool { return isNamed(t, "time", "Time") }

// typeName gives a stable readable key for a type.
func typeName(t types.Type) string {
	switch tt := t.(type) {
	case *types.Alias:
		return typeName(types.Unalias(tt))
	case *types.Named:
		o := tt.Obj()
		if o.Pkg() == nil {
			return o.Name()
		}
		n := shortPkg(o.Pkg().Path()) + "." + o.Name()
		if ta := tt.TypeArgs(); ta != nil && ta.Len() > 0 {
			var as []string
			for i := 0; i < ta.Len(); i++ {
				as = append(as, typeName(ta.At(i)))
			}
			n += "[" + strings.Join(as, ",") + "]"
		}
		return n
	case *types.Pointer:
		return "*" + typeName(tt.Elem())
	case *types.Slice:
		return "[]" + typeName(tt.Elem())
	case *types.Basic:
		// byte and uint8 (rune and int32) are the same type under two names
		switch tt.Kind() {
		case types.Uint8:
			return "byte"
		case types.Int32:
			return "int32"
		}
		return tt.Name()
	case *types.Interface:
		if tt.Empty() {
			return "any"
		}
		return "iface"
	case *types.Map:
		return "map[" + typeName(tt.Key()) + "]" + typeName(tt.Elem())
	case *types.Signature:
		return "func"
	case *types.Struct:
		return "struct"
	case *types.Chan:
		return "chan " + typeName(tt.Elem())
	case *types.Array:
		return fmt.Sprintf("[%d]%s", tt.Len(), typeName(tt.Elem()))
	case *types.Tuple:
		return "tuple"
	}
	return t.String()
}

type Comp struct {
	Suffix string
	Sort   string
}

// comps flattens a Go type into scalar SMT components.
func comps(t types.Type) []Comp {
	if isTimeTime(t) {
		return []Comp{{"", SInt}}
	}
	switch u := t.Underlying().(type) {
	case *types.Basic:
		switch {
		case u.Info()&types.IsBoolean != 0:
			return []Comp{{"", SBool}}
		case u.Info()&types.IsString != 0:
			return []Comp{{"", SStr}}
		default:
			return []Comp{{"", SInt}}
		}
	case *types.Slice:
		if isByteSlice(t) {
			return []Comp{{"", SInt}}
		}
		return []Comp{{"!ref", SInt}, {"!off", SInt}, {"!len", SInt}, {"!cap", SInt}}
	case *types.Struct:
		var out []Comp
		for i := 0; i < u.NumFields(); i++ {
			f := u.Field(i)
			for _, c := range comps(f.Type()) {
				out = append(out, Comp{"." + f.Name() + c.Suffix, c.Sort})
			}
		}
		if len(out) == 0 {
			// keep empty structs addressable
			return nil
		}
		return out
	default:
		return []Comp{{"", SInt}}
	}
}

func isStructVal(t types.Type) bool {
	if isTimeTime(t) {
		return false
	}
	_, ok := t.Underlying().(*types.Struct)
	return ok
}

func isSliceVal(t types.Type) bool {
	_, ok := t.Underlying().(*types.Slice)
	return ok && !isByteSlice(t)
}

func isOptionSlice(t types.Type) bool {
	s, ok := t.Underlying().(*types.Slice)
	if !ok {
		return false
	}
	return isNamed(s.Elem(), modulePath, "Option")
}

// flatten returns the scalar terms of v in comps(t) order.
func flatten(v Val) []Term {
	switch v.K {
	case VScalar, VFunc, VIface:
		return []Term{v.T}
	case VSlice:
		return []Term{v.Ref, v.Off, v.Len, v.Cap}
	case VStruct:
		var out []Term
		for _, p := range v.Parts {
			out = append(out, flatten(p)...)
		}
		return out
	}
	panic("flatten: unsupported value kind")
}

// unflatten rebuilds a Val of Go type t from scalar terms.
func unflatten(t types.Type, ts []Term) (Val, []Term) {
	if isTimeTime(t) {
		return scalar(ts[0], t), ts[1:]
	}
	switch u := t.Underlying().(type) {
	case *types.Slice:
		if isByteSlice(t) {
			return scalar(ts[0], t), ts[1:]
		}
		return Val{K: VSlice, GoT: t, Ref: ts[0], Off: ts[1], Len: ts[2], Cap: ts[3]}, ts[4:]
	case *types.Struct:
		v := Val{K: VStruct, GoT: t}
		for i := 0; i < u.NumFields(); i++ {
			var p Val
			p, ts = unflatten(u.Field(i).Type(), ts)
			v.Parts = append(v.Parts, p)
		}
		return v, ts
	case *types.Interface:
		return Val{K: VIface, GoT: t, T: ts[0]}, ts[1:]
	case *types.Signature:
		return Val{K: VFunc, GoT: t, T: ts[0]}, ts[1:]
	default:
		return scalar(ts[0], t), ts[1:]
	}
}

func zeroTerm(sort string) Term {
	switch sort {
	case SBool:
		return BoolT(false)
	case SStr:
		return StrT("")
	default:
		return IntT(0)
	}
}

func zeroVal(t types.Type) Val {
	cs := comps(t)
	ts := make([]Term, len(cs))
	for i, c := range cs {
		ts[i] = zeroTerm(c.Sort)
	}
	if len(cs) == 0 {
		return Val{K: VStruct, GoT: t}
	}
	v, _ := unflatten(t, ts)
	return v
}
