package main

import (
	"fmt"
	"go/types"
	"regexp"
	"strconv"
	"strings"

	"golang.org/x/tools/go/ssa"
)

// Library specifications (trusted). Every entry is listed in the evidence
// file when used.

var usedSpecs = map[string]bool{}

const mxHeld = "MX!held"

func (x *Exec) mxRegister() {
	if _, ok := prefixRegistry["MX"]; !ok {
		prefixRegistry["MX"] = [][2]string{{mxHeld, arrSort(SInt, SInt)}}
	}
}

var doneChans = map[string]Term{}

func reg(name string, f Intrinsic) {
	intrinsics[name] = func(x *Exec, st *State, c *CallCtx) []Outcome {
		usedSpecs[name] = true
		return f(x, st, c)
	}
}

func noop(x *Exec, st *State, c *CallCtx) []Outcome {
	var res []Val
	for i := 0; i < c.ResT.Len(); i++ {
		res = append(res, zeroVal(c.ResT.At(i).Type()))
	}
	return one(st, res...)
}

func bval(t Term) Val { return scalar(t, tBool) }

func (x *Exec) ufun(name string, args []string, ret string) string {
	x.Reg.DeclareFun(name, args, ret)
	return sym(name)
}

func (x *Exec) bc(st *State, v Val) Term { return x.bytesOf(st, v) }

// errOutcome: a clone of st on which the call failed.
func (x *Exec) errFork(st *State, what string) (*State, Val) {
	f := st.clone()
	e := x.newErr(f, what)
	return f, e
}

func declCrypto(x *Exec) {
	x.ufun("Verify", []string{SStr, SStr, SStr}, SBool)
	x.ufun("keyId", []string{SStr}, SStr)
	x.Reg.Axiom("keyIdInj", "(forall ((a String) (b String)) (! (=> (= (keyId a) (keyId b)) (= a b)) :pattern ((keyId a) (keyId b))))")
	x.Reg.Axiom("keyIdNE", "(forall ((a String)) (! (> (str.len (keyId a)) 0) :pattern ((keyId a))))")
	x.ufun("okPk", []string{SStr}, SBool)
	x.ufun("isEd", []string{SStr}, SBool)
	x.ufun("edpk", []string{SStr}, SStr)
	x.Reg.Axiom("edpkLen", "(forall ((a String)) (! (= (str.len (edpk a)) 32) :pattern ((edpk a))))")
	x.ufun("pkixOf", []string{SStr}, SStr)
	x.Reg.Axiom("pkixRT", "(forall ((k String)) (! (and (=> (= (str.len k) 32) (and (= (edpk (pkixOf k)) k) (okPk (pkixOf k)) (isEd (pkixOf k)))) (> (str.len (pkixOf k)) 0)) :pattern ((pkixOf k))))")
	x.ufun("edpub", []string{SStr}, SStr) // public key of an ed25519 private key
	x.ufun("edsign", []string{SStr, SStr, SStr}, SStr)
	x.Reg.Axiom("signVerifies", "(forall ((k String) (m String) (r String)) (! (Verify (edpub k) m (edsign k m r)) :pattern ((edsign k m r))))")
	x.ufun("dh", []string{SStr, SStr}, SStr)
	x.ufun("xpub", []string{SStr}, SStr)
	x.Reg.Axiom("dhSym", "(forall ((a String) (b String)) (! (= (dh a (xpub b)) (dh b (xpub a))) :pattern ((dh a (xpub b)))))")
	x.ufun("aeadEnc", []string{SStr, SStr, SStr, SStr}, SStr) // key, aad, plaintext, randomness
	x.ufun("aeadOk", []string{SStr, SStr, SStr}, SBool)       // key, aad, ciphertext
	x.ufun("aeadPt", []string{SStr, SStr, SStr}, SStr)
	x.Reg.Axiom("aeadRT", "(forall ((k String) (a String) (p String) (r String)) (! (and (aeadOk k a (aeadEnc k a p r)) (= (aeadPt k a (aeadEnc k a p r)) p) (>= (str.len (aeadEnc k a p r)) 28)) :pattern ((aeadEnc k a p r))))")
	x.Reg.Axiom("aeadInt", "(forall ((k String) (a String) (p String) (r String) (k2 String) (a2 String)) (! (=> (aeadOk k2 a2 (aeadEnc k a p r)) (and (= k2 k) (= a2 a))) :pattern ((aeadOk k2 a2 (aeadEnc k a p r)))))")
	x.ufun("b64", []string{SStr}, SStr)
	x.ufun("unb64", []string{SStr}, SStr)
	x.ufun("isB64", []string{SStr}, SBool)
	x.Reg.Axiom("b64RT", "(forall ((s String)) (! (and (= (unb64 (b64 s)) s) (isB64 (b64 s)) (not (str.contains (b64 s) \"-\"))) :pattern ((b64 s))))")
	x.Reg.Axiom("b64RT2", "(forall ((s String)) (! (=> (isB64 s) (= (b64 (unb64 s)) s)) :pattern ((unb64 s))))")
	x.ufun("b58", []string{SStr}, SStr)
	x.ufun("unb58", []string{SStr}, SStr)
	x.ufun("isB58", []string{SStr}, SBool)
	x.Reg.Axiom("b58RT", "(forall ((s String)) (! (and (= (unb58 (b58 s)) s) (isB58 (b58 s))) :pattern ((b58 s))))")
	x.ufun("hmacSum", []string{SStr, SStr}, SStr)
	x.Reg.Axiom("hmacInj", "(forall ((k String) (n String) (k2 String) (n2 String)) (! (=> (= (hmacSum k n) (hmacSum k2 n2)) (and (= k k2) (= n n2))) :pattern ((hmacSum k n) (hmacSum k2 n2))))")
	x.Reg.Axiom("b58Inj", "(forall ((a String) (b String)) (! (=> (= (b58 a) (b58 b)) (= a b)) :pattern ((b58 a) (b58 b))))")
	x.Reg.Axiom("b58NE", "(forall ((a String)) (! (=> (> (str.len a) 0) (> (str.len (b58 a)) 0)) :pattern ((b58 a))))")
	x.Reg.Axiom("hmacNE", "(forall ((k String) (n String)) (! (> (str.len (hmacSum k n)) 0) :pattern ((hmacSum k n))))")
	// wrapper (KMS) idealisation: wrapper identity Int
	x.ufun("wEnc", []string{SInt, SStr, SStr, SInt}, SInt) // wrapper, plaintext, aad, nonce -> blob object id (abstract)
	x.ufun("wOk", []string{SInt, SInt, SStr}, SBool)       // wrapper, blob value id, aad
	x.ufun("wPt", []string{SInt, SInt, SStr}, SStr)
	x.Reg.Axiom("wRT", "(forall ((w Int) (p String) (a String) (n Int)) (! (and (wOk w (wEnc w p a n) a) (= (wPt w (wEnc w p a n) a) p)) :pattern ((wEnc w p a n))))")
	x.Reg.Axiom("wInt", "(forall ((w Int) (p String) (a String) (n Int) (w2 Int) (a2 String)) (! (=> (wOk w2 (wEnc w p a n) a2) (and (= w2 w) (= a2 a))) :pattern ((wOk w2 (wEnc w p a n) a2))))")
}

func (x *Exec) evalSpecBuiltin(c *evalCtx, fn string, a []Val) (Val, bool, error) {
	st := c.state()
	if v, ok, err := x.rtSpec(st, fn, a); ok {
		return v, true, err
	}
	if v, ok, err := x.smSpec(st, fn, a); ok {
		return v, true, err
	}
	declCrypto(x)
	s := func(i int) Term { return x.bytesOf(st, a[i]) }
	switch fn {
	case "Verify":
		return bval(app("Verify", SBool, s(0), s(1), s(2))), true, nil
	case "keyId":
		return strV(app("keyId", SStr, s(0))), true, nil
	case "okPk":
		return bval(app("okPk", SBool, s(0))), true, nil
	case "isEd":
		return bval(app("isEd", SBool, s(0))), true, nil
	case "edpk":
		return strV(app("edpk", SStr, s(0))), true, nil
	case "pkixOf":
		return strV(app("pkixOf", SStr, s(0))), true, nil
	case "edpub":
		return strV(app("edpub", SStr, s(0))), true, nil
	case "dh":
		return strV(app("dh", SStr, s(0), s(1))), true, nil
	case "xpub":
		return strV(app("xpub", SStr, s(0))), true, nil
	case "b64":
		return strV(app("b64", SStr, s(0))), true, nil
	case "unb64":
		return strV(app("unb64", SStr, s(0))), true, nil
	case "isB64":
		return bval(app("isB64", SBool, s(0))), true, nil
	case "b58":
		return strV(app("b58", SStr, s(0))), true, nil
	case "unb58":
		return strV(app("unb58", SStr, s(0))), true, nil
	case "isB58":
		return bval(app("isB58", SBool, s(0))), true, nil
	case "hmacSum":
		return strV(app("hmacSum", SStr, s(0), s(1))), true, nil
	case "wEncS":
		x.ufun("wEncS", []string{SInt, SStr, SStr, SInt}, SStr)
		x.Reg.Axiom("wEncNE", "(forall ((w Int) (p String) (a String) (n Int)) (! (> (str.len (wEncS w p a n)) 0) :pattern ((wEncS w p a n))))")
		return strV(app("wEncS", SStr, a[0].T, s(1), s(2), a[3].T)), true, nil
	case "wOkS":
		x.ufun("wOkS", []string{SInt, SStr, SStr}, SBool)
		return bval(app("wOkS", SBool, a[0].T, s(1), s(2))), true, nil
	case "wPtS":
		x.ufun("wPtS", []string{SInt, SStr, SStr}, SStr)
		return strV(app("wPtS", SStr, a[0].T, s(1), s(2))), true, nil
	case "wKeyId":
		x.ufun("wKeyId", []string{SInt}, SStr)
		return strV(app("wKeyId", SStr, a[0].T)), true, nil
	case "unMts":
		x.ufun("unMts", []string{SStr}, SInt)
		return intV(app("unMts", SInt, s(0))), true, nil
	case "sealedBy":
		// sealedBy(stored, wrapper, clear, aad): stored is a marshaled BlobInfo whose ciphertext is the
		// wrapper's encryption of clear under additional data aad
		x.ufun("wEncS", []string{SInt, SStr, SStr, SInt}, SStr)
		x.Reg.Axiom("wEncNE", "(forall ((w Int) (p String) (a String) (n Int)) (! (> (str.len (wEncS w p a n)) 0) :pattern ((wEncS w p a n))))")
		bt := x.blobType()
		ct := x.decFn(decPrefix(bt)+"!Ciphertext", SStr, s(0))
		x.Reg.Axiom("decEmpty:"+decPrefix(bt)+"!Ciphertext", "(= ("+sym(decPrefix(bt)+"!Ciphertext")+" \"\") \"\")")
		pt := types.NewPointer(bt)
		x.declareTagDistinct(pt)
		nv := "n!q" + strconv.Itoa(x.uniq())
		ex := Term{"(exists ((" + nv + " Int)) " + Eq(ct, app("wEncS", SStr, a[1].T, s(2), s(3), Term{nv, SInt})).S + ")", SBool}
		return bval(And(x.wfMsg(x.typeTag(pt), s(0)), ex)), true, nil
	case "aeadEnc":
		return strV(app("aeadEnc", SStr, s(0), s(1), s(2), s(3))), true, nil
	case "aeadOk":
		return bval(app("aeadOk", SBool, s(0), s(1), s(2))), true, nil
	case "aeadPt":
		return strV(app("aeadPt", SStr, s(0), s(1), s(2))), true, nil
	case "certOf":
		return scalar(x.certRef(s(0)), types.NewPointer(x.certType())), true, nil
	case "keyOf":
		return strV(x.bytesContent(st, x.payloadBytes(a[0]))), true, nil
	case "unpkcs8":
		x.ufun("unpkcs8", []string{SStr}, SStr)
		return strV(app("unpkcs8", SStr, s(0))), true, nil
	case "pkcs8":
		x.ufun("pkcs8", []string{SStr}, SStr)
		return strV(app("pkcs8", SStr, s(0))), true, nil
	case "hdr":
		return strV(x.hdr(a[0].T)), true, nil
	case "blobCt":
		// ciphertext bytes inside a marshaled BlobInfo
		bt := x.blobType()
		ctf := fieldByName(bt, "Ciphertext")
		_ = ctf
		r := x.decFn(decPrefix(bt)+"!Ciphertext", SStr, s(0))
		x.Reg.Axiom("decEmpty:"+decPrefix(bt)+"!Ciphertext", "(= ("+sym(decPrefix(bt)+"!Ciphertext")+" \"\") \"\")")
		return strV(r), true, nil
	case "decField":
		// decField("types.T", "Field", content): the field of the message that content encodes
		mt := x.lookupNamed(strings.Trim(a[0].T.S, `"`))
		if mt == nil {
			return Val{}, true, fmt.Errorf("decField: unknown type %s", a[0].T.S)
		}
		fname := strings.Trim(a[1].T.S, `"`)
		f := fieldByName(mt, fname)
		if f == nil {
			return Val{}, true, fmt.Errorf("decField: no field %s", fname)
		}
		name := decPrefix(mt) + "!" + fname
		switch classifyField(f.Type()) {
		case fkBytes:
			return strV(x.decFn(name, SStr, s(2))), true, nil
		case fkTimestamp:
			return intV(Ite(x.decFn(name+"!nil", SBool, s(2)), IntT(0), x.decFn(name+"!ns", SInt, s(2)))), true, nil
		case fkNested:
			return Val{}, true, fmt.Errorf("decField: nested message field %s", fname)
		default:
			cs := comps(f.Type())
			ts := make([]Term, len(cs))
			for i, cp := range cs {
				ts[i] = x.decFn(name+cp.Suffix, cp.Sort, s(2))
			}
			v, _ := unflatten(f.Type(), ts)
			return v, true, nil
		}
	case "wfMsg":
		// wfMsg(msgOrTypeName, content)
		if a[0].T.Sort == SStr {
			mt := x.lookupNamed(strings.Trim(a[0].T.S, `"`))
			if mt == nil {
				return Val{}, true, fmt.Errorf("wfMsg: unknown type %s", a[0].T.S)
			}
			pt := types.NewPointer(mt)
			x.declareTagDistinct(pt)
			return bval(x.wfMsg(x.typeTag(pt), s(1))), true, nil
		}
		return bval(x.wfMsg(x.msgTag(a[0]), s(1))), true, nil
	case "decodedFrom":
		// decodedFrom(msg, content): msg holds exactly the message encoded by content
		if t, ref, ok := msgArg(a[0]); ok && !isTimestampType(t) {
			return bval(x.sameAsDecoded(st, t, decPrefix(t), s(1), ref, 0)), true, nil
		}
		x.registerPrefix(wirePrefix, types.Typ[types.String])
		x.declIfaceFns()
		return bval(Eq(x.readComp(st, wirePrefix, SStr, app("payl", SInt, a[0].T)), s(1))), true, nil
	case "encodes":
		// encodes(content, msg): content is an encoding of msg
		if t, ref, ok := msgArg(a[1]); ok && !isTimestampType(t) {
			return bval(And(x.wfMsg(x.msgTag(a[1]), s(0)), x.sameAsDecoded(st, t, decPrefix(t), s(0), ref, 0))), true, nil
		}
		x.ufun("encodesObj", []string{SInt, SStr}, SBool)
		x.declIfaceFns()
		return bval(And(x.wfMsg(x.msgTag(a[1]), s(0)), app("encodesObj", SBool, app("payl", SInt, a[1].T), s(0)))), true, nil
	case "curId", "curKey", "prevId", "prevKey":
		x.ufun("kp!"+fn, []string{SInt}, SStr)
		return strV(app(sym("kp!"+fn), SStr, a[0].T)), true, nil
	case "curOk", "prevOk":
		x.ufun("kp!"+fn, []string{SInt}, SBool)
		return bval(app(sym("kp!"+fn), SBool, a[0].T)), true, nil
	}
	return Val{}, false, nil
}

// hdr(k) = fmt.Sprintf("%02d-", k)
func (x *Exec) hdr(k Term) Term {
	x.hdrDecl()
	return app("str.++", SStr, x.pad2(k), StrT("-"))
}

func (x *Exec) hdrDecl() {
	x.ufun("dec", []string{SInt}, SStr)
	// decimal rendering: facts used by the chunk proofs
	x.Reg.Axiom("decLen", "(forall ((k Int)) (! (and (=> (and (<= 0 k) (<= k 9)) (= (str.len (dec k)) 1)) (=> (and (<= 10 k) (<= k 99)) (= (str.len (dec k)) 2)) (=> (and (<= 100 k) (<= k 999)) (= (str.len (dec k)) 3)) (=> (and (<= 1000 k) (<= k 9999)) (= (str.len (dec k)) 4)) (=> (>= k 0) (>= (str.len (dec k)) 1)) (=> (>= k 0) (not (str.contains (dec k) \"-\")))) :pattern ((dec k))))")
}

// pad2(k) = fmt.Sprintf("%02d", k)
func (x *Exec) pad2(k Term) Term {
	x.hdrDecl()
	pad := Ite(And(Ge(k, IntT(0)), Le(k, IntT(9))), StrT("0"), StrT(""))
	return app("str.++", SStr, pad, app("dec", SStr, k))
}

var fmtVerb = regexp.MustCompile(`%[-+# 0]*[0-9]*(\.[0-9]+)?[a-zA-Z%]`)

func init() {
	// ---- strings
	reg("strings.HasPrefix", func(x *Exec, st *State, c *CallCtx) []Outcome {
		return one(st, bval(app("str.prefixof", SBool, c.Args[1].T, c.Args[0].T)))
	})
	reg("strings.HasSuffix", func(x *Exec, st *State, c *CallCtx) []Outcome {
		return one(st, bval(app("str.suffixof", SBool, c.Args[1].T, c.Args[0].T)))
	})
	reg("strings.Contains", func(x *Exec, st *State, c *CallCtx) []Outcome {
		return one(st, bval(app("str.contains", SBool, c.Args[0].T, c.Args[1].T)))
	})
	reg("strings.TrimPrefix", func(x *Exec, st *State, c *CallCtx) []Outcome {
		s, p := c.Args[0].T, c.Args[1].T
		r := Ite(app("str.prefixof", SBool, p, s), app("str.substr", SStr, s, StrLen(p), Sub(StrLen(s), StrLen(p))), s)
		// a consequence of the definition, stated for the solver: prefix ++ result == s when s has the prefix
		rv := x.define(st, "trimmed", r)
		st.assume(Implies(app("str.prefixof", SBool, p, s), Eq(app("str.++", SStr, p, rv), s)))
		return one(st, strV(rv))
	})
	reg("strings.IndexByte", func(x *Exec, st *State, c *CallCtx) []Outcome {
		ch := c.Args[1].T
		var cs Term
		if n, ok := litInt(ch); ok {
			cs = StrT(string(rune(n)))
		} else {
			cs = app("str.from_code", SStr, ch)
		}
		return one(st, intV(app("str.indexof", SInt, c.Args[0].T, cs, IntT(0))))
	})
	reg("strings.Index", func(x *Exec, st *State, c *CallCtx) []Outcome {
		return one(st, intV(app("str.indexof", SInt, c.Args[0].T, c.Args[1].T, IntT(0))))
	})
	reg("strings.Join", func(x *Exec, st *State, c *CallCtx) []Outcome {
		return one(st, strV(x.fresh(st, "joined", SStr)))
	})
	// ---- fmt / errors
	reg("fmt.Errorf", func(x *Exec, st *State, c *CallCtx) []Outcome {
		e := x.newErrAny(st, "errorf")
		format := c.Args[0].T
		wraps := isStrLit(format) && strings.Contains(format.S, "%w")
		if wraps {
			// predicates of the wrapped errors propagate
			for _, wv := range x.variadicIfaces(st, c.Args[1]) {
				if wv.GoT != nil && isErrorLike(wv) {
					for _, p := range []string{"isNotFound", "isDuplicate", "isClosed", "isCtxErr"} {
						st.assume(Implies(x.errPred(p, wv.T), x.errPred(p, e.T)))
					}
				}
			}
			// conversely the new error has a predicate only through a wrapped one
			var ws []Term
			for _, wv := range x.variadicIfaces(st, c.Args[1]) {
				if isErrorLike(wv) {
					ws = append(ws, wv.T)
				}
			}
			for _, p := range []string{"isNotFound", "isDuplicate", "isClosed", "isCtxErr"} {
				any := BoolT(false)
				for _, w := range ws {
					any = Or(any, x.errPred(p, w))
				}
				st.assume(Implies(x.errPred(p, e.T), any))
			}
		} else {
			for _, p := range []string{"isNotFound", "isDuplicate", "isClosed", "isCtxErr"} {
				st.assume(Not(x.errPred(p, e.T)))
			}
		}
		st.assume(Not(x.errPred("isTemporary", e.T)))
		return one(st, e)
	})
	reg("errors.New", func(x *Exec, st *State, c *CallCtx) []Outcome {
		return one(st, x.newErr(st, "new"))
	})
	reg("errors.Is", func(x *Exec, st *State, c *CallCtx) []Outcome {
		target := c.Args[1]
		pred := ""
		if x.isGlobalVal(target, "nodeenrollment.ErrNotFound") {
			pred = "isNotFound"
		} else if x.isGlobalVal(target, "net.ErrClosed") {
			pred = "isClosed"
		}
		if pred == "" {
			return one(st, bval(And(Neq(c.Args[0].T, IntT(0)), x.fresh(st, "errorsIs", SBool))))
		}
		return one(st, bval(And(Neq(c.Args[0].T, IntT(0)), x.errPred(pred, c.Args[0].T))))
	})
	reg("errors.As", func(x *Exec, st *State, c *CallCtx) []Outcome {
		// DuplicateRecordError targets are the duplicate kind; any other target type: undetermined
		tn := ""
		if len(c.Common.Args) > 1 {
			tn = typeName(c.Common.Args[1].Type())
		}
		if c.Args[1].K == VIface && c.Args[1].Dyn != nil {
			tn = typeName(c.Args[1].Dyn)
		}
		if strings.Contains(tn, "DuplicateRecordError") {
			return one(st, bval(And(Neq(c.Args[0].T, IntT(0)), x.errPred("isDuplicate", c.Args[0].T))))
		}
		return one(st, bval(And(Neq(c.Args[0].T, IntT(0)), x.fresh(st, "errorsAs", SBool))))
	})
	reg("errors.Join", func(x *Exec, st *State, c *CallCtx) []Outcome {
		ws := x.variadicIfaces(st, c.Args[0])
		anyNN := BoolT(false)
		for _, w := range ws {
			anyNN = Or(anyNN, Neq(w.T, IntT(0)))
		}
		e := x.fresh(st, "err!join", SInt)
		st.assume(Ge(e, IntT(0)))
		st.assume(Eq(Neq(e, IntT(0)), anyNN))
		for _, p := range []string{"isNotFound", "isDuplicate", "isClosed", "isCtxErr"} {
			any := BoolT(false)
			for _, w := range ws {
				any = Or(any, And(Neq(w.T, IntT(0)), x.errPred(p, w.T)))
			}
			st.assume(Eq(x.errPred(p, e), any))
		}
		st.assume(Not(x.errPred("isTemporary", e)))
		return one(st, Val{K: VIface, T: e, GoT: errType})
	})
	reg("iface:error.Error", func(x *Exec, st *State, c *CallCtx) []Outcome {
		return one(st, strV(x.fresh(st, "errstr", SStr)))
	})
	reg("fmt.Sprintf", func(x *Exec, st *State, c *CallCtx) []Outcome {
		format := c.Args[0].T
		if !isStrLit(format) {
			return one(st, strV(x.fresh(st, "sprintf", SStr)))
		}
		f, _ := strconv.Unquote(strings.ReplaceAll(format.S, `""`, `\"`))
		args := x.variadicVals(st, c.Args[1])
		verbs := fmtVerb.FindAllStringIndex(f, -1)
		out := StrT("")
		last := 0
		ai := 0
		okAll := true
		for _, vb := range verbs {
			out = strConcat(out, StrT(f[last:vb[0]]))
			verb := f[vb[0]:vb[1]]
			last = vb[1]
			if verb == "%%" {
				out = strConcat(out, StrT("%"))
				continue
			}
			if ai >= len(args) {
				okAll = false
				break
			}
			a := args[ai]
			ai++
			switch {
			case verb == "%s" && a.T.Sort == SStr:
				out = strConcat(out, a.T)
			case verb == "%02d" && a.T.Sort == SInt:
				out = strConcat(out, x.pad2(a.T))
			case verb == "%d" && a.T.Sort == SInt:
				x.hdrDecl()
				out = strConcat(out, app("dec", SStr, a.T))
			default:
				okAll = false
			}
			if !okAll {
				break
			}
		}
		if !okAll {
			return one(st, strV(x.fresh(st, "sprintf", SStr)))
		}
		out = strConcat(out, StrT(f[last:]))
		return one(st, strV(out))
	})
	// ---- module functions specified directly (reflection / hashing inside)
	reg("nodeenrollment.IsNil", func(x *Exec, st *State, c *CallCtx) []Outcome {
		return one(st, bval(x.isNilTerm(c.Args[0])))
	})
	reg("nodeenrollment.KeyIdFromPkix", func(x *Exec, st *State, c *CallCtx) []Outcome {
		declCrypto(x)
		b := c.Args[0]
		isNil := Eq(b.T, IntT(0))
		var outs []Outcome
		if !isLit(isNil, "false") {
			f := st.clone()
			f.assume(isNil)
			e := x.newErr(f, "keyid")
			outs = append(outs, Outcome{St: f, Res: []Val{strV(StrT("")), e}})
		}
		st.assume(Not(isNil))
		outs = append([]Outcome{{St: st, Res: []Val{strV(app("keyId", SStr, x.bc(st, b))), nilErr()}}}, outs...)
		return outs
	})
	reg("util/temperror.New", func(x *Exec, st *State, c *CallCtx) []Outcome {
		// returns the struct tempError{error}; its interface conversion is temporary
		return one(st, Val{K: VStruct, GoT: c.ResT.At(0).Type(), Parts: []Val{c.Args[0]}})
	})
	// ---- slices (generic): membership and first index over a slice of scalar elements
	sliceFind := func(x *Exec, st *State, c *CallCtx) (Term, Term, bool) {
		s, v := c.Args[0], c.Args[1]
		if s.K != VSlice || v.K != VScalar {
			return Term{}, Term{}, false
		}
		et := s.GoT.Underlying().(*types.Slice).Elem()
		elem := func(i Term) (Term, bool) {
			ix := x.idxTerm(s.Off, i)
			e := x.loadAddrPure(st, &Addr{Prefix: elemPrefix(et), Ref: s.Ref, Idx: &ix, T: et})
			return e.T, e.K == VScalar && e.T.Sort == v.T.Sort
		}
		w := x.fresh(st, "found", SInt)
		ew, ok := elem(w)
		if !ok {
			return Term{}, Term{}, false
		}
		// w: -1, or the first position holding v
		j := Term{"j!q" + strconv.Itoa(x.uniq()), SInt}
		ej, _ := elem(j)
		none := Term{"(forall ((" + j.S + " Int)) " + Implies(And(Ge(j, IntT(0)), Lt(j, s.Len)), Neq(ej, v.T)).S + ")", SBool}
		before := Term{"(forall ((" + j.S + " Int)) " + Implies(And(Ge(j, IntT(0)), Lt(j, w)), Neq(ej, v.T)).S + ")", SBool}
		st.assume(Or(And(Eq(w, IntT(-1)), none), And(Ge(w, IntT(0)), Lt(w, s.Len), Eq(ew, v.T), before)))
		return w, s.Len, true
	}
	reg("slices.Index", func(x *Exec, st *State, c *CallCtx) []Outcome {
		w, _, ok := sliceFind(x, st, c)
		if !ok {
			x.note(x.Outside, "slices.Index over non-scalar elements: result arbitrary")
			return one(st, intV(x.fresh(st, "idx", SInt)))
		}
		return one(st, intV(w))
	})
	reg("slices.Contains", func(x *Exec, st *State, c *CallCtx) []Outcome {
		w, _, ok := sliceFind(x, st, c)
		if !ok {
			x.note(x.Outside, "slices.Contains over non-scalar elements: result arbitrary")
			return one(st, bval(x.fresh(st, "has", SBool)))
		}
		return one(st, bval(Ge(w, IntT(0))))
	})
	// ---- crypto/subtle, bytes
	reg("crypto/subtle.ConstantTimeCompare", func(x *Exec, st *State, c *CallCtx) []Outcome {
		eq := Eq(x.bc(st, c.Args[0]), x.bc(st, c.Args[1]))
		return one(st, intV(Ite(eq, IntT(1), IntT(0))))
	})
	reg("bytes.Equal", func(x *Exec, st *State, c *CallCtx) []Outcome {
		return one(st, bval(Eq(x.bc(st, c.Args[0]), x.bc(st, c.Args[1]))))
	})
	// ---- time
	reg("time.Now", func(x *Exec, st *State, c *CallCtx) []Outcome {
		return one(st, scalar(x.readClock(st), c.ResT.At(0).Type()))
	})
	reg("time.Until", func(x *Exec, st *State, c *CallCtx) []Outcome {
		return one(st, intV(Sub(c.Args[0].T, x.readClock(st))))
	})
	reg("time.Since", func(x *Exec, st *State, c *CallCtx) []Outcome {
		return one(st, intV(Sub(x.readClock(st), c.Args[0].T)))
	})
	reg("(time.Time).Add", func(x *Exec, st *State, c *CallCtx) []Outcome {
		return one(st, scalar(Add(c.Args[0].T, c.Args[1].T), c.ResT.At(0).Type()))
	})
	reg("(time.Time).Sub", func(x *Exec, st *State, c *CallCtx) []Outcome {
		return one(st, intV(Sub(c.Args[0].T, c.Args[1].T)))
	})
	reg("(time.Time).After", func(x *Exec, st *State, c *CallCtx) []Outcome {
		return one(st, bval(Gt(c.Args[0].T, c.Args[1].T)))
	})
	reg("(time.Time).Before", func(x *Exec, st *State, c *CallCtx) []Outcome {
		return one(st, bval(Lt(c.Args[0].T, c.Args[1].T)))
	})
	reg("(time.Time).Equal", func(x *Exec, st *State, c *CallCtx) []Outcome {
		return one(st, bval(Eq(c.Args[0].T, c.Args[1].T)))
	})
	reg("(time.Time).IsZero", func(x *Exec, st *State, c *CallCtx) []Outcome {
		return one(st, bval(Eq(c.Args[0].T, x.zeroTime())))
	})
	reg("(time.Time).UnixNano", func(x *Exec, st *State, c *CallCtx) []Outcome {
		return one(st, intV(c.Args[0].T))
	})
	tsp := "google.golang.org/protobuf/types/known/timestamppb"
	reg(tsp+".New", func(x *Exec, st *State, c *CallCtx) []Outcome {
		r := x.alloc(st)
		x.tsSet(st, r, c.Args[0].T)
		return one(st, scalar(r, c.ResT.At(0).Type()))
	})
	reg(tsp+".Now", func(x *Exec, st *State, c *CallCtx) []Outcome {
		r := x.alloc(st)
		x.tsSet(st, r, x.readClock(st))
		return one(st, scalar(r, c.ResT.At(0).Type()))
	})
	reg("(*"+tsp+".Timestamp).AsTime", func(x *Exec, st *State, c *CallCtx) []Outcome {
		return one(st, scalar(x.tsTime(st, c.Args[0].T), c.ResT.At(0).Type()))
	})
	reg("(*"+tsp+".Timestamp).IsValid", func(x *Exec, st *State, c *CallCtx) []Outcome {
		x.ufun("tsValid", []string{SInt}, SBool)
		return one(st, bval(And(Neq(c.Args[0].T, IntT(0)), app("tsValid", SBool, x.tsTime(st, c.Args[0].T)))))
	})
	// ---- protobuf
	pp := "google.golang.org/protobuf/proto"
	reg(pp+".Marshal", protoMarshal)
	reg(pp+".Unmarshal", protoUnmarshal)
	reg(pp+".Clone", func(x *Exec, st *State, c *CallCtx) []Outcome {
		m := c.Args[0]
		if m.K == VIface && m.Dyn != nil {
			if pt, ok := m.Dyn.Underlying().(*types.Pointer); ok && isStructVal(pt.Elem()) {
				nr := x.deepCopy(st, pt.Elem(), m.Payload.T, 0)
				pv := scalar(nr, m.Dyn)
				return one(st, x.makeInterface(st, pv, m.Dyn, c.ResT.At(0).Type()))
			}
		}
		return x.havocCall(st, c, "proto.Clone of statically unknown message")
	})
	intrinsicEffects[pp+".Unmarshal"] = func(c *ssa.CallCommon) []string {
		if len(c.Args) == 2 {
			if mi, ok := c.Args[1].(*ssa.MakeInterface); ok {
				if pt, ok := mi.X.Type().Underlying().(*types.Pointer); ok {
					return []string{"F!" + typeName(pt.Elem()) + "!"}
				}
			}
		}
		return []string{"F!"}
	}
	// ---- logging, sync, context: no effect on module-visible state
	for _, n := range []string{"Error", "Warn", "Info", "Debug", "Trace"} {
		reg("iface:github.com/hashicorp/go-hclog.Logger."+n, noop)
	}
	// mutexes: no blocking is modelled (sequential semantics), but a ghost counter per mutex records what
	// the calling function holds: Lock +1000 / Unlock -1000, RLock +1 / RUnlock -1. Spec: mutexHeld(m) == 0
	// states that every lock taken has been released (a function that returns with a lock held wedges
	// every later caller).
	for n, d := range map[string]int64{"(*sync.RWMutex).Lock": 1000, "(*sync.RWMutex).Unlock": -1000, "(*sync.RWMutex).RLock": 1, "(*sync.RWMutex).RUnlock": -1, "(*sync.Mutex).Lock": 1000, "(*sync.Mutex).Unlock": -1000} {
		d := d
		reg(n, func(x *Exec, st *State, c *CallCtx) []Outcome {
			x.mxRegister()
			m := c.Args[0].T
			if c.Args[0].K == VAddr && c.Args[0].A != nil {
				m = c.Args[0].A.Ref // a mutex embedded in (or a field of) an object is identified by that object
			}
			a := x.heapCur(st, mxHeld, arrSort(SInt, SInt))
			x.heapSet(st, mxHeld, StoreT(a, m, Add(Select(a, m, SInt), IntT(d))))
			if !st.Fresh[m.S] {
				st.Dirty[mxHeld] = true
			}
			return one(st)
		})
	}
	reg("iface:context.Context.Done", func(x *Exec, st *State, c *CallCtx) []Outcome {
		// the done channel is a function of the context; neverCancelled(ctx) ==> it is never ready (see selectOp)
		x.ufun("ctxDoneCh", []string{SInt}, SInt)
		ch := app("ctxDoneCh", SInt, c.Args[0].T)
		doneChans[ch.S] = c.Args[0].T
		return one(st, scalar(ch, c.ResT.At(0).Type()))
	})
	reg("iface:context.Context.Err", func(x *Exec, st *State, c *CallCtx) []Outcome {
		// nil or an error of the context kind; non-nil once a select on this path saw the done channel
		// ready; nil for a context that is never cancelled
		e := x.fresh(st, "err!ctx", SInt)
		st.assume(Ge(e, IntT(0)))
		for _, p := range []string{"isNotFound", "isDuplicate", "isClosed", "isTemporary"} {
			st.assume(Not(x.errPred(p, e)))
		}
		st.assume(Implies(Neq(e, IntT(0)), x.errPred("isCtxErr", e)))
		x.ufun("neverCancelled", []string{SInt}, SBool)
		st.assume(Implies(app("neverCancelled", SBool, c.Args[0].T), Eq(e, IntT(0))))
		if took, ok := st.CtxSel[c.Args[0].T.S]; ok {
			st.assume(Implies(took, Neq(e, IntT(0))))
		}
		return one(st, Val{K: VIface, T: e, GoT: errType})
	})
}

// isNilTerm: nodeenrollment.IsNil(v): nil interface, or nil pointer / map / chan / slice inside.
func (x *Exec) isNilTerm(a Val) Term {
	x.declIfaceFns()
	if a.K == VIface && a.Dyn != nil {
		switch a.Dyn.Underlying().(type) {
		case *types.Pointer, *types.Map, *types.Chan, *types.Slice:
			p := a.Payload
			if p.K == VSlice {
				return Eq(p.Ref, IntT(0))
			}
			return Eq(p.T, IntT(0))
		default:
			return BoolT(false)
		}
	}
	if a.K == VSlice {
		return Eq(a.Ref, IntT(0))
	}
	if a.K == VScalar {
		return Eq(a.T, IntT(0))
	}
	x.ufun("nilPayloadKind", []string{SInt}, SBool)
	return Or(Eq(a.T, IntT(0)), And(app("nilPayloadKind", SBool, app("dyntag", SInt, a.T)), Eq(app("payl", SInt, a.T), IntT(0))))
}

func isErrorLike(v Val) bool {
	if v.K != VIface {
		return false
	}
	if v.Dyn == nil {
		return isErrorType(v.GoT) || true
	}
	return types.Implements(v.Dyn, errType.Underlying().(*types.Interface))
}

// variadicIfaces returns the statically known elements of a variadic []any /
// []error argument (through the forwarding cache), unwrapping interface boxes.
func (x *Exec) variadicVals(st *State, s Val) []Val {
	if s.K != VSlice {
		return nil
	}
	n, ok := litInt(s.Len)
	if !ok {
		return nil
	}
	et := s.GoT.Underlying().(*types.Slice).Elem()
	var out []Val
	for i := int64(0); i < n; i++ {
		ix := x.idxTerm(s.Off, IntT(i))
		v := x.loadAddrPure(st, &Addr{Prefix: elemPrefix(et), Ref: s.Ref, Idx: &ix, T: et})
		if v.K == VIface && v.Payload != nil && !isErrorType(v.Dyn) {
			if _, isIface := v.Dyn.Underlying().(*types.Interface); !isIface {
				out = append(out, *v.Payload)
				continue
			}
		}
		out = append(out, v)
	}
	return out
}

func (x *Exec) variadicIfaces(st *State, s Val) []Val {
	if s.K != VSlice {
		return nil
	}
	n, ok := litInt(s.Len)
	if !ok {
		return nil
	}
	et := s.GoT.Underlying().(*types.Slice).Elem()
	var out []Val
	for i := int64(0); i < n; i++ {
		ix := x.idxTerm(s.Off, IntT(i))
		v := x.loadAddrPure(st, &Addr{Prefix: elemPrefix(et), Ref: s.Ref, Idx: &ix, T: et})
		if v.K == VIface && v.Payload != nil && v.Payload.K == VIface {
			out = append(out, *v.Payload)
			continue
		}
		if v.K == VIface && v.Dyn != nil {
			if _, isIface := v.Dyn.Underlying().(*types.Interface); !isIface && !types.Implements(v.Dyn, errType.Underlying().(*types.Interface)) {
				continue // a non-error argument (string, int, ...)
			}
		}
		out = append(out, v)
	}
	return out
}

func (x *Exec) isGlobalVal(v Val, name string) bool {
	return strings.Contains(v.T.S, "G!"+name) || strings.Contains(v.T.S, "G!"+shortName(name))
}

func shortName(n string) string { return n }

func (x *Exec) zeroTime() Term {
	// time.Time{} is year 1; as nanoseconds relative to the Unix epoch
	return Term{"(- 62135596800000000000)", SInt}
}

func (x *Exec) readClock(st *State) Term {
	if x.ClockInstant && len(st.Clock) > 0 {
		st.Clock = append(st.Clock, st.Clock[0])
		return st.Clock[0]
	}
	t := x.fresh(st, "clk", SInt)
	if n := len(st.Clock); n > 0 {
		st.assume(Ge(t, st.Clock[n-1]))
	}
	// the clock is far from the zero time and from overflow
	st.assume(Gt(t, IntT(0)))
	st.Clock = append(st.Clock, t)
	return t
}

// ---------------------------------------------------------------- protobuf

func msgArg(v Val) (types.Type, Term, bool) {
	if v.K == VScalar && v.GoT != nil {
		if pt, ok := v.GoT.Underlying().(*types.Pointer); ok && isStructVal(pt.Elem()) {
			return pt.Elem(), v.T, true
		}
	}
	if v.K == VIface && v.Dyn != nil {
		if pt, ok := v.Dyn.Underlying().(*types.Pointer); ok && isStructVal(pt.Elem()) {
			return pt.Elem(), v.Payload.T, true
		}
	}
	return nil, Term{}, false
}

// wfMsg(tag, content): content is a well-formed encoding of a message of the type with that tag.
func (x *Exec) wfMsg(tag Term, content Term) Term {
	x.ufun("wfMsg", []string{SInt, SStr}, SBool)
	return app("wfMsg", SBool, tag, content)
}

const wirePrefix = "F!proto.Message!$wire" // ghost: wire content a message object was last decoded from / encoded to

func (x *Exec) msgTag(v Val) Term {
	x.declIfaceFns()
	if v.K == VIface && v.Dyn != nil {
		x.declareTagDistinct(v.Dyn)
		return x.typeTag(v.Dyn)
	}
	return app("dyntag", SInt, v.T)
}

func protoMarshal(x *Exec, st *State, c *CallCtx) []Outcome {
	t, ref, ok := msgArg(c.Args[0])
	bt := c.ResT.At(0).Type()
	fail, fe := x.errFork(st, "marshal")
	failOut := Outcome{St: fail, Res: []Val{scalar(IntT(0), bt), fe}}
	content := x.fresh(st, "marshaled", SStr)
	tag := x.msgTag(c.Args[0])
	st.assume(x.wfMsg(tag, content))
	if ok {
		if isTimestampType(t) {
			x.ufun("unMts", []string{SStr}, SInt)
			st.assume(Eq(app("unMts", SInt, content), x.tsTime(st, ref)))
		} else {
			st.assume(Implies(Eq(ref, IntT(0)), Eq(content, StrT(""))))
			st.assume(Implies(Neq(ref, IntT(0)), x.sameAsDecoded(st, t, decPrefix(t), content, ref, 0)))
		}
	} else {
		// statically unknown message type: remember only the relation object <-> wire content
		x.ufun("encodesObj", []string{SInt, SStr}, SBool)
		x.declIfaceFns()
		st.assume(app("encodesObj", SBool, app("payl", SInt, c.Args[0].T), content))
	}
	b := x.newBytes(st, content, bt)
	return []Outcome{{St: st, Res: []Val{b, nilErr()}}, failOut}
}

func protoUnmarshal(x *Exec, st *State, c *CallCtx) []Outcome {
	t, ref, ok := msgArg(c.Args[1])
	content := x.bc(st, c.Args[0])
	tag := x.msgTag(c.Args[1])
	fail, fe := x.errFork(st, "unmarshal")
	fail.assume(Not(x.wfMsg(tag, content)))
	st.assume(x.wfMsg(tag, content))
	x.registerPrefix(wirePrefix, types.Typ[types.String])
	if !ok {
		x.declIfaceFns()
		obj := app("payl", SInt, c.Args[1].T)
		x.writeComp(st, wirePrefix, SStr, obj, content)
		x.note(x.Assumed, "proto.Unmarshal into a statically unknown message type in "+funcKey(c.Fr.Fn)+": only the relation object <-> wire content is tracked")
		return []Outcome{{St: st, Res: []Val{nilErr()}}, {St: fail, Res: []Val{fe}}}
	}
	// a failed Unmarshal leaves the target in an arbitrary state
	x.havocMsg(fail, t, ref)
	if isTimestampType(t) {
		x.ufun("unMts", []string{SStr}, SInt)
		x.tsSet(st, ref, app("unMts", SInt, content))
	} else {
		x.decodeInto(st, t, decPrefix(t), content, ref, 0)
	}
	x.writeComp(st, wirePrefix, SStr, ref, content)
	return []Outcome{{St: st, Res: []Val{nilErr()}}, {St: fail, Res: []Val{fe}}}
}

func (x *Exec) havocMsg(st *State, t types.Type, ref Term) {
	for _, f := range protoFields(t) {
		v := x.symValue(st, "hvf!"+f.Name(), f.Type(), false)
		x.bumpForVal(st, v)
		x.storeAddr(st, &Addr{Prefix: fieldPrefix(t, f.Name()), Ref: ref, T: f.Type()}, v)
	}
}
