package main

import (
	"fmt"
	"regexp"
	"strconv"
	"strings"
)

// ---------------------------------------------------------------- expressions

type Expr interface{}

type (
	EIdent struct{ Name string }
	EInt   struct{ V int64 }
	EStr   struct{ V string }
	EBool  struct{ V bool }
	ENil   struct{}
	EUn    struct {
		Op string
		X  Expr
	}
	EBin struct {
		Op   string
		L, R Expr
	}
	ECall struct {
		Fn   string
		Args []Expr
	}
	ESel struct {
		X     Expr
		Field string
	}
	EIndex struct{ X, I Expr }
	ESlice struct{ X, Lo, Hi Expr }
	EQuant struct {
		All  bool
		Vars []string
		Sort []string
		Body Expr
	}
)

type tok struct {
	k string // id int str op eof
	s string
}

func lexExpr(s string) ([]tok, error) {
	var ts []tok
	i := 0
	for i < len(s) {
		c := s[i]
		switch {
		case c == ' ' || c == '\t' || c == '\n':
			i++
		case c >= '0' && c <= '9':
			j := i
			for j < len(s) && (s[j] >= '0' && s[j] <= '9' || s[j] == '_') {
				j++
			}
			ts = append(ts, tok{"int", strings.ReplaceAll(s[i:j], "_", "")})
			i = j
		case c == '"':
			j := i + 1
			for j < len(s) && s[j] != '"' {
				if s[j] == '\\' {
					j++
				}
				j++
			}
			if j >= len(s) {
				return nil, fmt.Errorf("unterminated string")
			}
			v, err := strconv.Unquote(s[i : j+1])
			if err != nil {
				return nil, err
			}
			ts = append(ts, tok{"str", v})
			i = j + 1
		case c == '_' || c >= 'a' && c <= 'z' || c >= 'A' && c <= 'Z':
			j := i
			for j < len(s) && (s[j] == '_' || s[j] == '$' || s[j] >= 'a' && s[j] <= 'z' || s[j] >= 'A' && s[j] <= 'Z' || s[j] >= '0' && s[j] <= '9') {
				j++
			}
			ts = append(ts, tok{"id", s[i:j]})
			i = j
		default:
			ops := []string{"<==>", "==>", ":=", "::", "==", "!=", "<=", ">=", "&&", "||", "(", ")", "[", "]", ",", ".", ":", "<", ">", "+", "-", "*", "/", "%", "!"}
			matched := false
			for _, op := range ops {
				if strings.HasPrefix(s[i:], op) {
					ts = append(ts, tok{"op", op})
					i += len(op)
					matched = true
					break
				}
			}
			if !matched {
				return nil, fmt.Errorf("unexpected character %q at %d in %q", c, i, s)
			}
		}
	}
	ts = append(ts, tok{"eof", ""})
	return ts, nil
}

type eparser struct {
	ts []tok
	p  int
}

func (p *eparser) peek() tok { return p.ts[p.p] }
func (p *eparser) next() tok { t := p.ts[p.p]; p.p++; return t }
func (p *eparser) isOp(s string) bool {
	t := p.peek()
	return t.k == "op" && t.s == s
}
func (p *eparser) expectOp(s string) error {
	if !p.isOp(s) {
		return fmt.Errorf("expected %q, got %q", s, p.peek().s)
	}
	p.p++
	return nil
}

func parseExpr(s string) (Expr, error) {
	ts, err := lexExpr(s)
	if err != nil {
		return nil, err
	}
	p := &eparser{ts: ts}
	e, err := p.parseIff()
	if err != nil {
		return nil, fmt.Errorf("%v in %q", err, s)
	}
	if p.peek().k != "eof" {
		return nil, fmt.Errorf("trailing tokens at %q in %q", p.peek().s, s)
	}
	return e, nil
}

func (p *eparser) parseIff() (Expr, error) {
	l, err := p.parseImp()
	if err != nil {
		return nil, err
	}
	for p.isOp("<==>") {
		p.next()
		r, err := p.parseImp()
		if err != nil {
			return nil, err
		}
		l = EBin{"<==>", l, r}
	}
	return l, nil
}
func (p *eparser) parseImp() (Expr, error) {
	l, err := p.parseOr()
	if err != nil {
		return nil, err
	}
	if p.isOp("==>") {
		p.next()
		r, err := p.parseImp()
		if err != nil {
			return nil, err
		}
		return EBin{"==>", l, r}, nil
	}
	return l, nil
}
func (p *eparser) parseOr() (Expr, error) {
	l, err := p.parseAnd()
	if err != nil {
		return nil, err
	}
	for p.isOp("||") {
		p.next()
		r, err := p.parseAnd()
		if err != nil {
			return nil, err
		}
		l = EBin{"||", l, r}
	}
	return l, nil
}
func (p *eparser) parseAnd() (Expr, error) {
	l, err := p.parseCmp()
	if err != nil {
		return nil, err
	}
	for p.isOp("&&") {
		p.next()
		r, err := p.parseCmp()
		if err != nil {
			return nil, err
		}
		l = EBin{"&&", l, r}
	}
	return l, nil
}
func (p *eparser) parseCmp() (Expr, error) {
	l, err := p.parseAdd()
	if err != nil {
		return nil, err
	}
	for {
		t := p.peek()
		if t.k == "op" && (t.s == "==" || t.s == "!=" || t.s == "<" || t.s == "<=" || t.s == ">" || t.s == ">=") {
			p.next()
			r, err := p.parseAdd()
			if err != nil {
				return nil, err
			}
			l = EBin{t.s, l, r}
			continue
		}
		return l, nil
	}
}
func (p *eparser) parseAdd() (Expr, error) {
	l, err := p.parseMul()
	if err != nil {
		return nil, err
	}
	for p.isOp("+") || p.isOp("-") {
		op := p.next().s
		r, err := p.parseMul()
		if err != nil {
			return nil, err
		}
		l = EBin{op, l, r}
	}
	return l, nil
}
func (p *eparser) parseMul() (Expr, error) {
	l, err := p.parseUnary()
	if err != nil {
		return nil, err
	}
	for p.isOp("*") || p.isOp("/") || p.isOp("%") {
		op := p.next().s
		r, err := p.parseUnary()
		if err != nil {
			return nil, err
		}
		l = EBin{op, l, r}
	}
	return l, nil
}
func (p *eparser) parseUnary() (Expr, error) {
	if p.isOp("!") || p.isOp("-") {
		op := p.next().s
		x, err := p.parseUnary()
		if err != nil {
			return nil, err
		}
		return EUn{op, x}, nil
	}
	return p.parsePostfix()
}
func (p *eparser) parsePostfix() (Expr, error) {
	x, err := p.parsePrimary()
	if err != nil {
		return nil, err
	}
	for {
		switch {
		case p.isOp("."):
			p.next()
			t := p.next()
			if t.k != "id" {
				return nil, fmt.Errorf("expected field name after '.'")
			}
			x = ESel{x, t.s}
		case p.isOp("["):
			p.next()
			var lo Expr
			if !p.isOp(":") {
				lo, err = p.parseIff()
				if err != nil {
					return nil, err
				}
			}
			if p.isOp(":") {
				p.next()
				var hi Expr
				if !p.isOp("]") {
					hi, err = p.parseIff()
					if err != nil {
						return nil, err
					}
				}
				if err := p.expectOp("]"); err != nil {
					return nil, err
				}
				x = ESlice{x, lo, hi}
			} else {
				if err := p.expectOp("]"); err != nil {
					return nil, err
				}
				x = EIndex{x, lo}
			}
		default:
			return x, nil
		}
	}
}
func (p *eparser) parsePrimary() (Expr, error) {
	t := p.next()
	switch t.k {
	case "int":
		v, err := strconv.ParseInt(t.s, 10, 64)
		if err != nil {
			return nil, err
		}
		return EInt{v}, nil
	case "str":
		return EStr{t.s}, nil
	case "id":
		switch t.s {
		case "true":
			return EBool{true}, nil
		case "false":
			return EBool{false}, nil
		case "nil":
			return ENil{}, nil
		case "forall", "exists":
			q := EQuant{All: t.s == "forall"}
			for {
				v := p.next()
				if v.k != "id" {
					return nil, fmt.Errorf("expected bound variable")
				}
				s := p.next()
				if s.k != "id" {
					return nil, fmt.Errorf("expected sort of bound variable")
				}
				q.Vars = append(q.Vars, v.s)
				q.Sort = append(q.Sort, s.s)
				if p.isOp(",") {
					p.next()
					continue
				}
				break
			}
			if err := p.expectOp("::"); err != nil {
				return nil, err
			}
			b, err := p.parseIff()
			if err != nil {
				return nil, err
			}
			q.Body = b
			return q, nil
		}
		if p.isOp("(") {
			p.next()
			var args []Expr
			for !p.isOp(")") {
				a, err := p.parseIff()
				if err != nil {
					return nil, err
				}
				args = append(args, a)
				if p.isOp(",") {
					p.next()
				} else if !p.isOp(")") {
					return nil, fmt.Errorf("expected , or ) in call of %s", t.s)
				}
			}
			p.next()
			return ECall{t.s, args}, nil
		}
		return EIdent{t.s}, nil
	case "op":
		if t.s == "(" {
			e, err := p.parseIff()
			if err != nil {
				return nil, err
			}
			if err := p.expectOp(")"); err != nil {
				return nil, err
			}
			return e, nil
		}
	}
	return nil, fmt.Errorf("unexpected token %q", t.s)
}

// ---------------------------------------------------------------- contracts

type Clause struct {
	Kind  string // requires ensures invariant callassert
	Props []string
	Label string
	E     Expr
	Src   string
	File  string
	Line  int
	// invariant
	Loop int
	// callassert
	Callee string
}

func (c *Clause) forProp(p string) bool {
	for _, q := range c.Props {
		if q == "*" || q == p {
			return true
		}
	}
	return false
}

type LetDef struct {
	Name string
	E    Expr
}

type Contract struct {
	Key       string
	Requires  []*Clause
	Ensures   []*Clause
	Invs      []*Clause
	CallAsrt  []*Clause
	NoPanic   []string // props
	Modifies  []Expr
	ModSrc    []string
	Unroll    map[int]int
	Lets      []LetDef
	Splits    []Expr
	ClockInstant bool
	Storage   string // "" (reliable) | faulty
	Trusted   bool   // body not verified (assumed contract)
	NoInline  bool
	File      string
	Line      int
	PanicProp map[string]bool
}

func (c *Contract) hasProp(p string) bool {
	for _, cl := range c.Ensures {
		if cl.forProp(p) {
			return true
		}
	}
	for _, cl := range c.CallAsrt {
		if cl.forProp(p) {
			return true
		}
	}
	for _, q := range c.NoPanic {
		if q == p || q == "*" {
			return true
		}
	}
	return false
}

// ownsProp: has a clause explicitly naming p (not just '*').
func (c *Contract) ownsProp(p string) bool {
	has := func(ps []string) bool {
		for _, q := range ps {
			if q == p {
				return true
			}
		}
		return false
	}
	for _, cl := range c.Ensures {
		if has(cl.Props) {
			return true
		}
	}
	for _, cl := range c.CallAsrt {
		if has(cl.Props) {
			return true
		}
	}
	return has(c.NoPanic)
}

// hasStar: some clause of the contract is proved under every property (tag *).
func (c *Contract) hasStar() bool {
	star := func(ps []string) bool {
		for _, q := range ps {
			if q == "*" {
				return true
			}
		}
		return false
	}
	for _, cl := range c.Ensures {
		if star(cl.Props) {
			return true
		}
	}
	for _, cl := range c.CallAsrt {
		if star(cl.Props) {
			return true
		}
	}
	for _, cl := range c.Invs {
		if star(cl.Props) {
			return true
		}
	}
	return star(c.NoPanic)
}

type SpecFunc struct {
	Name string
	Args []string
	Ret  string
}

type PredDef struct {
	Name   string
	Params []string
	Body   Expr
}

type ContractSet struct {
	Preds     map[string]*PredDef
	ByKey     map[string]*Contract
	FuncValue map[string]string // named func type (short) -> contract key
	FieldFunc map[string]string // Type.field -> contract key
	SpecFuncs map[string]*SpecFunc
	Axioms    []*Clause
	Errors    []string
}

var tagRe = regexp.MustCompile(`^([a-z-]+)\s*(?:\[([^\]]*)\])?\s*(.*)$`)
var propRe = regexp.MustCompile(`^(C\d{2,3}|\*)$`)

func parseTags(s string) (props []string, label string) {
	for _, f := range strings.FieldsFunc(s, func(r rune) bool { return r == ',' || r == ' ' }) {
		if propRe.MatchString(f) {
			props = append(props, f)
		} else {
			label = f
		}
	}
	return
}

func parseContracts(lines []srcLine) *ContractSet {
	cs := &ContractSet{Preds: map[string]*PredDef{}, ByKey: map[string]*Contract{}, FuncValue: map[string]string{}, FieldFunc: map[string]string{}, SpecFuncs: map[string]*SpecFunc{}}
	// join continuation lines
	var joined []srcLine
	for _, l := range lines {
		if strings.HasPrefix(l.Text, "|") && len(joined) > 0 {
			joined[len(joined)-1].Text += " " + strings.TrimSpace(l.Text[1:])
			continue
		}
		joined = append(joined, l)
	}
	var cur *Contract
	errf := func(l srcLine, f string, a ...interface{}) {
		cs.Errors = append(cs.Errors, fmt.Sprintf("%s:%d: %s", l.File, l.Line, fmt.Sprintf(f, a...)))
	}
	for _, l := range joined {
		t := l.Text
		if t == "" || strings.HasPrefix(t, "--") {
			continue
		}
		if i := strings.Index(t, " -- "); i >= 0 {
			t = strings.TrimSpace(t[:i])
		}
		m := tagRe.FindStringSubmatch(t)
		if m == nil {
			errf(l, "cannot parse %q", t)
			continue
		}
		kw, tags, rest := m[1], m[2], strings.TrimSpace(m[3])
		props, label := parseTags(tags)
		mk := func(kind string, src string) *Clause {
			e, err := parseExpr(src)
			if err != nil {
				errf(l, "%v", err)
				return nil
			}
			return &Clause{Kind: kind, Props: props, Label: label, E: e, Src: src, File: l.File, Line: l.Line}
		}
		switch kw {
		case "func":
			key := strings.Fields(rest)[0]
			if cs.ByKey[key] != nil {
				errf(l, "duplicate contract for %s", key)
			}
			cur = &Contract{Key: key, Unroll: map[int]int{}, File: l.File, Line: l.Line}
			cs.ByKey[key] = cur
		case "funcvalue":
			f := strings.Fields(rest)
			if len(f) == 3 && f[1] == "as" {
				cs.FuncValue[f[0]] = f[2]
			} else {
				errf(l, "funcvalue T as F")
			}
			cur = nil
		case "fieldfunc":
			f := strings.Fields(rest)
			if len(f) == 3 && f[1] == "as" {
				cs.FieldFunc[f[0]] = f[2]
			} else {
				errf(l, "fieldfunc T.f as F")
			}
			cur = nil
		case "spec":
			// spec func name(Sort, Sort) Sort
			r := regexp.MustCompile(`^func\s+(\w+)\(([^)]*)\)\s*(\w+)$`).FindStringSubmatch(rest)
			if r == nil {
				errf(l, "spec func name(Sorts) Sort")
				continue
			}
			sf := &SpecFunc{Name: r[1], Ret: r[3]}
			for _, a := range strings.Split(r[2], ",") {
				a = strings.TrimSpace(a)
				if a != "" {
					sf.Args = append(sf.Args, a)
				}
			}
			cs.SpecFuncs[sf.Name] = sf
			cur = nil
		case "pred":
			// pred name(a, b) := EXPR
			r := regexp.MustCompile(`^(\w+)\(([^)]*)\)\s*:=\s*(.*)$`).FindStringSubmatch(rest)
			if r == nil {
				errf(l, "pred name(params) := EXPR")
				continue
			}
			e, err := parseExpr(r[3])
			if err != nil {
				errf(l, "%v", err)
				continue
			}
			pd := &PredDef{Name: r[1], Body: e}
			for _, a := range strings.Split(r[2], ",") {
				if a = strings.TrimSpace(a); a != "" {
					pd.Params = append(pd.Params, a)
				}
			}
			cs.Preds[pd.Name] = pd
			cur = nil
		case "axiom":
			if c := mk("axiom", rest); c != nil {
				cs.Axioms = append(cs.Axioms, c)
			}
		default:
			if cur == nil {
				errf(l, "clause %q outside a func block", kw)
				continue
			}
			switch kw {
			case "requires":
				if c := mk("requires", rest); c != nil {
					cur.Requires = append(cur.Requires, c)
				}
			case "ensures":
				if c := mk("ensures", rest); c != nil {
					if len(c.Props) == 0 {
						c.Props = []string{"*"}
					}
					cur.Ensures = append(cur.Ensures, c)
				}
			case "nopanic":
				if len(props) == 0 {
					props = []string{"*"}
				}
				cur.NoPanic = append(cur.NoPanic, props...)
			case "modifies":
				for _, part := range splitTop(rest, ',') {
					e, err := parseExpr(part)
					if err != nil {
						errf(l, "%v", err)
						continue
					}
					cur.Modifies = append(cur.Modifies, e)
					cur.ModSrc = append(cur.ModSrc, strings.TrimSpace(part))
				}
			case "loop":
				f := strings.SplitN(rest, " ", 3)
				if len(f) < 3 {
					errf(l, "loop K invariant EXPR | loop K unroll N")
					continue
				}
				k, err := strconv.Atoi(f[0])
				if err != nil {
					errf(l, "bad loop ordinal")
					continue
				}
				sub := tagRe.FindStringSubmatch(f[1] + " " + f[2])
				switch sub[1] {
				case "invariant":
					ps, lb := parseTags(sub[2])
					e, err := parseExpr(sub[3])
					if err != nil {
						errf(l, "%v", err)
						continue
					}
					cur.Invs = append(cur.Invs, &Clause{Kind: "invariant", Props: ps, Label: lb, E: e, Src: sub[3], Loop: k, File: l.File, Line: l.Line})
				case "unroll":
					n, err := strconv.Atoi(strings.TrimSpace(sub[3]))
					if err != nil {
						errf(l, "bad unroll count")
						continue
					}
					cur.Unroll[k] = n
				default:
					errf(l, "loop K invariant|unroll")
				}
			case "call":
				// call CALLEE assert[tags] EXPR
				f := strings.SplitN(rest, " ", 2)
				if len(f) < 2 {
					errf(l, "call CALLEE assert EXPR")
					continue
				}
				sub := tagRe.FindStringSubmatch(strings.TrimSpace(f[1]))
				if sub == nil || sub[1] != "assert" {
					errf(l, "call CALLEE assert EXPR")
					continue
				}
				ps, lb := parseTags(sub[2])
				e, err := parseExpr(sub[3])
				if err != nil {
					errf(l, "%v", err)
					continue
				}
				if len(ps) == 0 {
					ps = []string{"*"}
				}
				cur.CallAsrt = append(cur.CallAsrt, &Clause{Kind: "callassert", Props: ps, Label: lb, E: e, Src: sub[3], Callee: f[0], File: l.File, Line: l.Line})
			case "let":
				i := strings.Index(rest, "=")
				if i < 0 {
					errf(l, "let NAME = EXPR")
					continue
				}
				e, err := parseExpr(strings.TrimSpace(rest[i+1:]))
				if err != nil {
					errf(l, "%v", err)
					continue
				}
				cur.Lets = append(cur.Lets, LetDef{strings.TrimSpace(rest[:i]), e})
			case "split":
				e, err := parseExpr(rest)
				if err != nil {
					errf(l, "%v", err)
					continue
				}
				cur.Splits = append(cur.Splits, e)
			case "clock":
				cur.ClockInstant = rest == "instantaneous"
			case "storage":
				cur.Storage = rest
			case "trusted":
				cur.Trusted = true
			default:
				errf(l, "unknown clause keyword %q", kw)
			}
		}
	}
	return cs
}

func splitTop(s string, sep byte) []string {
	var out []string
	d := 0
	last := 0
	for i := 0; i < len(s); i++ {
		switch s[i] {
		case '(', '[':
			d++
		case ')', ']':
			d--
		default:
			if s[i] == sep && d == 0 {
				out = append(out, s[last:i])
				last = i + 1
			}
		}
	}
	out = append(out, s[last:])
	return out
}

// ---------------------------------------------------------------- goal splitting

func substLets(e Expr, lets map[string]Expr) Expr {
	switch v := e.(type) {
	case EIdent:
		if d, ok := lets[v.Name]; ok {
			return d
		}
		return v
	case EUn:
		return EUn{v.Op, substLets(v.X, lets)}
	case EBin:
		return EBin{v.Op, substLets(v.L, lets), substLets(v.R, lets)}
	case ECall:
		as := make([]Expr, len(v.Args))
		for i, a := range v.Args {
			as[i] = substLets(a, lets)
		}
		return ECall{v.Fn, as}
	case ESel:
		return ESel{substLets(v.X, lets), v.Field}
	case EIndex:
		return EIndex{substLets(v.X, lets), substLets(v.I, lets)}
	case ESlice:
		var lo, hi Expr
		if v.Lo != nil {
			lo = substLets(v.Lo, lets)
		}
		if v.Hi != nil {
			hi = substLets(v.Hi, lets)
		}
		return ESlice{substLets(v.X, lets), lo, hi}
	case EQuant:
		inner := map[string]Expr{}
		for k, d := range lets {
			shadow := false
			for _, bv := range v.Vars {
				if bv == k {
					shadow = true
				}
			}
			if !shadow {
				inner[k] = d
			}
		}
		return EQuant{v.All, v.Vars, v.Sort, substLets(v.Body, inner)}
	}
	return e
}

// boolLets: only boolean-valued lets (used as predicates) are expanded for splitting.
func splitGoal(e Expr) []Expr {
	switch v := e.(type) {
	case EBin:
		switch v.Op {
		case "&&":
			return append(splitGoal(v.L), splitGoal(v.R)...)
		case "==>":
			var out []Expr
			for _, ante := range splitAnte(v.L) {
				for _, c := range splitGoal(v.R) {
					out = append(out, EBin{"==>", ante, c})
				}
			}
			return out
		}
	case EQuant:
		if v.All {
			var out []Expr
			for _, b := range splitGoal(v.Body) {
				out = append(out, EQuant{true, v.Vars, v.Sort, b})
			}
			return out
		}
	}
	return []Expr{e}
}

// splitAnte: case split on a top-level disjunction among the conjuncts of an antecedent.
func splitAnte(a Expr) []Expr {
	conj := flattenAnd(a)
	for i, c := range conj {
		if b, ok := c.(EBin); ok && b.Op == "||" {
			var out []Expr
			for _, d := range flattenOr(c) {
				rest := append(append([]Expr{}, conj[:i]...), d)
				rest = append(rest, conj[i+1:]...)
				out = append(out, splitAnte(joinAnd(rest))...)
			}
			if len(out) <= 8 {
				return out
			}
			return []Expr{a}
		}
	}
	return []Expr{a}
}

func flattenAnd(e Expr) []Expr {
	if b, ok := e.(EBin); ok && b.Op == "&&" {
		return append(flattenAnd(b.L), flattenAnd(b.R)...)
	}
	return []Expr{e}
}
func flattenOr(e Expr) []Expr {
	if b, ok := e.(EBin); ok && b.Op == "||" {
		return append(flattenOr(b.L), flattenOr(b.R)...)
	}
	return []Expr{e}
}
func joinAnd(es []Expr) Expr {
	r := es[0]
	for _, e := range es[1:] {
		r = EBin{"&&", r, e}
	}
	return r
}
