package main

import (
	"fmt"
	"go/types"
	"sort"
	"strconv"
	"strings"

	"golang.org/x/tools/go/ssa"
)

// Intrinsic: a library specification coded in the engine.
type Intrinsic func(x *Exec, st *State, c *CallCtx) []Outcome

var intrinsics = map[string]Intrinsic{}

// intrinsicEffects: heap prefixes an intrinsic may write (for loop havoc).
var intrinsicEffects = map[string]func(c *ssa.CallCommon) []string{}

func one(st *State, res ...Val) []Outcome { return []Outcome{{St: st, Res: res}} }

func (x *Exec) doCall(st *State, fr *Frame, v *ssa.Call) []*State {
	outs := x.call(st, fr, v, v.Common())
	return x.finishCall(st, fr, v, outs)
}

// finishCall binds results of each outcome; the first outcome continues in st's
// identity when it is st itself, others are returned as alternatives.
func (x *Exec) finishCall(st *State, fr *Frame, v ssa.CallInstruction, outs []Outcome) []*State {
	if outs == nil {
		// a frame was pushed (inlining); result bound at return
		return nil
	}
	var more []*State
	keep := false
	for _, o := range outs {
		if o.St.Dead {
			continue
		}
		if cv, ok := v.(ssa.Value); ok {
			x.bindResult(o.St.top(), cv, o.Res)
		}
		if o.St == st {
			keep = true
		} else {
			more = append(more, o.St)
		}
	}
	if !keep {
		st.Dead = true
	}
	return more
}

func (x *Exec) call(st *State, fr *Frame, ins ssa.CallInstruction, c *ssa.CallCommon) []Outcome {
	var args []Val
	site := ""
	if ins != nil {
		site = x.siteName(fr.Fn, ins)
	}
	resT := c.Signature().Results()
	cc := &CallCtx{Instr: ins, Common: c, Site: site, Fr: fr, ResT: resT}

	if b, ok := c.Value.(*ssa.Builtin); ok {
		for _, a := range c.Args {
			args = append(args, x.val(fr, a))
		}
		cc.Args = args
		return x.builtin(st, fr, b.Name(), cc)
	}
	name := calleeName(c)
	cc.Name = name

	if c.IsInvoke() {
		recv := x.val(fr, c.Value)
		args = append(args, recv)
		for _, a := range c.Args {
			args = append(args, x.val(fr, a))
		}
		cc.Args = args
		x.checkCallAsserts(st, fr, cc)
		// statically known dynamic type -> static dispatch
		if recv.K == VIface && recv.Dyn != nil {
			if fn := x.Prog.Prog.LookupMethod(recv.Dyn, c.Method.Pkg(), c.Method.Name()); fn != nil {
				a2 := append([]Val{*recv.Payload}, args[1:]...)
				cc2 := *cc
				cc2.Args = a2
				if inModuleFn(fn) {
					cc2.Name = funcKey(fn)
				} else {
					cc2.Name = extName(fn)
				}
				return x.callStatic(st, fr, fn, nil, &cc2)
			}
		}
		if in, ok := intrinsics[name]; ok {
			return in(x, st, cc)
		}
		// interface method by method name only (any interface declaring it)
		if in, ok := intrinsics["iface:*."+c.Method.Name()]; ok {
			return in(x, st, cc)
		}
		return x.havocCall(st, cc, "interface method "+name)
	}
	fv := x.val(fr, c.Value)
	for _, a := range c.Args {
		args = append(args, x.val(fr, a))
	}
	cc.Args = args
	if fv.K == VFunc && fv.Fn != nil {
		if inModuleFn(fv.Fn) {
			cc.Name = funcKey(fv.Fn)
		} else {
			cc.Name = extName(fv.Fn)
		}
		x.checkCallAsserts(st, fr, cc)
		return x.callStatic(st, fr, fv.Fn, fv.Bind, cc)
	}
	x.checkCallAsserts(st, fr, cc)
	// dynamic call: contract by field or named func type
	if strings.HasPrefix(name, "field:") {
		if key, ok := x.CS.FieldFunc[strings.TrimPrefix(name, "field:")]; ok {
			if ct := x.CS.ByKey[key]; ct != nil {
				return x.applyContract(st, fr, ct, x.Prog.Funcs[key], cc)
			}
		}
	}
	tn := typeName(c.Value.Type())
	if key, ok := x.CS.FuncValue[tn]; ok {
		if ct := x.CS.ByKey[key]; ct != nil {
			return x.applyContract(st, fr, ct, x.Prog.Funcs[key], cc)
		}
	}
	if in, ok := intrinsics["dyn:"+tn]; ok {
		return in(x, st, cc)
	}
	return x.havocCall(st, cc, "function value "+name)
}

func (x *Exec) callStatic(st *State, fr *Frame, fn *ssa.Function, bind []Val, cc *CallCtx) []Outcome {
	name := cc.Name
	if in, ok := intrinsics[name]; ok {
		return in(x, st, cc)
	}
	if inModuleFn(fn) {
		if ct := x.CS.ByKey[name]; ct != nil && !(x.Mode == "summary") {
			return x.applyContract(st, fr, ct, fn, cc)
		}
		if len(fn.Blocks) > 0 && fr.Depth < maxInlineDepth && !x.onStack(st, fn) && !x.isGenerated(fn) {
			prefix := fr.Prefix + name + "@" + cc.Site + "/"
			x.pushFrame(st, fn, cc.Args, bind, cc.Instr, prefix, fr.Depth+1)
			return nil
		}
		if x.isGenerated(fn) {
			if outs, ok := x.pbGetter(st, fn, cc); ok {
				return outs
			}
		}
		return x.havocCall(st, cc, "module function "+name+" (no contract, not inlinable)")
	}
	// generic library method fallbacks by method name
	return x.havocCall(st, cc, name)
}

func (x *Exec) onStack(st *State, fn *ssa.Function) bool {
	for _, f := range st.Frames {
		if f.Fn == fn {
			return true
		}
	}
	return false
}

// havocCall: results arbitrary, module-visible state unchanged (recorded).
func (x *Exec) havocCall(st *State, cc *CallCtx, what string) []Outcome {
	x.note(x.Unspec, what)
	var res []Val
	for i := 0; i < cc.ResT.Len(); i++ {
		v := x.symValue(st, "hv!"+sanitizeFile(cc.Name), cc.ResT.At(i).Type(), false)
		x.bumpForVal(st, v)
		res = append(res, v)
	}
	return one(st, res...)
}

func (x *Exec) bumpForVal(st *State, v Val) {
	switch v.K {
	case VScalar:
		if v.T.Sort == SInt {
			switch v.GoT.Underlying().(type) {
			case *types.Pointer, *types.Slice, *types.Map, *types.Chan:
				x.bumpAbove(st, v.T)
			}
		}
	case VSlice:
		x.bumpAbove(st, v.Ref)
	case VStruct, VTuple:
		for _, p := range v.Parts {
			x.bumpForVal(st, p)
		}
	}
}

// ---------------------------------------------------------------- builtins

func (x *Exec) builtin(st *State, fr *Frame, name string, cc *CallCtx) []Outcome {
	a := cc.Args
	switch name {
	case "len":
		return one(st, scalar(x.lenOf(st, a[0]), types.Typ[types.Int]))
	case "cap":
		if a[0].K == VSlice {
			return one(st, scalar(a[0].Cap, types.Typ[types.Int]))
		}
		return one(st, scalar(x.lenOf(st, a[0]), types.Typ[types.Int]))
	case "append":
		return one(st, x.appendOp(st, fr, cc))
	case "copy":
		return one(st, x.copyOp(st, fr, cc))
	case "panic":
		if x.nopanicActive(fr) {
			x.oblige(st, x.obName(fr, "panic."+cc.Site), BoolT(false), "prove")
		}
		st.Dead = true
		return []Outcome{}
	case "print", "println":
		return one(st)
	case "close":
		return one(st)
	case "delete":
		x.mapDelete(st, a[0], a[1])
		return one(st)
	case "recover":
		return one(st, Val{K: VIface, T: IntT(0), GoT: types.NewInterfaceType(nil, nil)})
	case "min", "max":
		r := a[0].T
		for _, o := range a[1:] {
			if name == "min" {
				r = Ite(Le(r, o.T), r, o.T)
			} else {
				r = Ite(Ge(r, o.T), r, o.T)
			}
		}
		return one(st, scalar(r, a[0].GoT))
	}
	panic("builtin " + name)
}

func (x *Exec) lenOf(st *State, v Val) Term {
	switch v.K {
	case VSlice:
		return v.Len
	case VScalar:
		if v.T.Sort == SStr {
			return StrLen(v.T)
		}
		if isByteSlice(v.GoT) {
			return StrLen(x.bytesContent(st, v.T))
		}
		if _, ok := v.GoT.Underlying().(*types.Map); ok {
			return x.mapLen(st, v)
		}
	}
	panic("len of " + v.String() + " : " + v.GoT.String())
}

func (x *Exec) appendOp(st *State, fr *Frame, cc *CallCtx) Val {
	s := cc.Args[0]
	add := cc.Args[1]
	rt := cc.Common.Signature().Results().At(0).Type()
	if isByteSlice(rt) {
		// content concatenation; result is a new immutable byte object
		c1 := x.bytesContent(st, s.T)
		var c2 Term
		if add.K == VScalar && add.T.Sort == SStr {
			c2 = add.T
		} else {
			c2 = x.bytesContent(st, add.T)
		}
		x.note(x.Assumed, "append on []byte in "+funcKey(fr.Fn)+" modelled as a fresh value (no in-place write)")
		return x.newBytes(st, strConcat(c1, c2), rt)
	}
	et := rt.Underlying().(*types.Slice).Elem()
	// the variadic part arrives as a slice
	n := add.Len
	newLen := Add(s.Len, n)
	inPlace := Le(newLen, s.Cap)
	res := Val{K: VSlice, GoT: rt, Len: newLen}
	if v, ok := litInt(n); ok && v == 0 {
		// append(s) == s
		r := s
		r.GoT = rt
		return r
	}
	// decide "fits into the capacity" from the path condition where the solver can (make with a capacity hint
	// followed by appends): a decided case needs no case split in every later read of the result
	// (only for a slice this function made itself - st.Fresh - where an in-place append is the intended case;
	// asking for every append of every path doubled the running time of C07)
	if !isLit(inPlace, "true") && !isLit(inPlace, "false") && !isOptionSlice(rt) && st.Fresh[s.Ref.S] {
		if !x.feasible(st, Not(inPlace)) {
			inPlace = BoolT(true)
		} else if !x.feasible(st, inPlace) {
			inPlace = BoolT(false)
		}
	}
	var fresh Term
	if isLit(inPlace, "true") {
		res.Ref, res.Off, res.Cap = s.Ref, s.Off, s.Cap
	} else {
		fresh = x.alloc(st)
		fcap := x.fresh(st, "newcap", SInt)
		st.assume(Ge(fcap, newLen))
		res.Ref = Ite(inPlace, s.Ref, fresh)
		res.Off = Ite(inPlace, s.Off, IntT(0))
		res.Cap = Ite(inPlace, s.Cap, fcap)
		if !isLit(inPlace, "false") {
			res.Ref = x.define(st, "apref", res.Ref)
			if st.Fresh[s.Ref.S] || st.PostEntry[s.Ref.S] {
				st.PostEntry[res.Ref.S] = true
			}
			if s.Ref.S != "0" {
				// keep freshness knowledge only when statically fresh
			}
		} else {
			st.Fresh[res.Ref.S] = true
		}
	}
	if isOptionSlice(rt) {
		// element contents tracked abstractly
		abs := &OptAbs{}
		if s.Abs != nil {
			*abs = *s.Abs
			abs.Apps = append([]OptApp(nil), s.Abs.Apps...)
		} else {
			abs.Base = x.fresh(st, "absbase", SInt)
		}
		if add.Abs != nil && isLit(add.Abs.Base, "0") && !add.Abs.Unknown {
			abs.Apps = append(abs.Apps, add.Abs.Apps...)
		} else {
			abs.Unknown = true
			abs.Base = x.fresh(st, "absunk", SInt)
			abs.Apps = nil
		}
		res.Abs = abs
		// frame obligation for C15: in-place writes only into arrays allocated by this call
		if x.Contract != nil && x.frameAppendActive() && !isLit(inPlace, "false") {
			goal := Or(Not(inPlace), Gt(s.Ref, x.entryWM(st)), Eq(s.Ref, IntT(0)))
			x.oblige(st, x.obName(fr, "frame.append."+cc.Site), goal, "prove")
		}
		return res
	}
	x.registerElemPrefix(elemPrefix(et), et)
	cs := comps(et)
	nn, nlit := litInt(n)
	if !nlit || nn > 8 {
		// appending an unknown number of elements: contents beyond s are arbitrary
		x.note(x.Assumed, "append of a slice of unknown length in "+funcKey(fr.Fn)+": appended contents related only through length")
		for _, cp := range cs {
			name := elemPrefix(et) + cp.Suffix
			inner := arrSort(SInt, cp.Sort)
			row := x.fresh(st, "aprow", inner)
			// row agrees with old contents below len(s)
			i := "i!" + strconv.Itoa(x.uniq())
			oldRow := x.readRow(st, name, inner, s.Ref)
			st.addCmd(fmt.Sprintf("(assert (forall ((%s Int)) (! (=> (and (<= 0 %s) (< %s %s)) (= (select %s (+ %s %s)) (select %s (+ %s %s)))) :pattern ((select %s (+ %s %s))))))",
				i, i, i, s.Len.S, row.S, res.Off.S, i, oldRow.S, s.Off.S, i, row.S, res.Off.S, i))
			// and with the appended slice above
			addRow := x.readRow(st, name, inner, add.Ref)
			j := "j!" + strconv.Itoa(x.uniq())
			st.addCmd(fmt.Sprintf("(assert (forall ((%s Int)) (! (=> (and (<= 0 %s) (< %s %s)) (= (select %s (+ %s (+ %s %s))) (select %s (+ %s %s)))) :pattern ((select %s (+ %s (+ %s %s)))))))",
				j, j, j, n.S, row.S, res.Off.S, s.Len.S, j, addRow.S, add.Off.S, j, row.S, res.Off.S, s.Len.S, j))
			x.writeRow(st, name, inner, res.Ref, row)
		}
		x.fwdDropPrefix(st, elemPrefix(et))
		return res
	}
	if !isLit(s.Off, "0") && !isLit(inPlace, "true") {
		x.note(x.Assumed, "append to a re-sliced slice in "+funcKey(fr.Fn)+": reallocation copy modelled with a quantified row")
	}
	for ci, cp := range cs {
		name := elemPrefix(et) + cp.Suffix
		inner := arrSort(SInt, cp.Sort)
		var row Term
		if isLit(s.Off, "0") || isLit(inPlace, "true") {
			row = x.readRow(st, name, inner, s.Ref)
		} else {
			oldRow := x.readRow(st, name, inner, s.Ref)
			shifted := x.fresh(st, "shrow", inner)
			i := "i!" + strconv.Itoa(x.uniq())
			st.addCmd(fmt.Sprintf("(assert (forall ((%s Int)) (! (=> (and (<= 0 %s) (< %s %s)) (= (select %s %s) (select %s (+ %s %s)))) :pattern ((select %s %s)))))",
				i, i, i, s.Len.S, shifted.S, i, oldRow.S, s.Off.S, i, shifted.S, i))
			row = Ite(inPlace, oldRow, shifted)
		}
		for k := int64(0); k < nn; k++ {
			// element k of the appended slice
			ev := x.readElem(st, name, cp.Sort, add.Ref, Add(add.Off, IntT(k)))
			if fv, ok := st.Fwd[elemPrefix(et)+"@"+add.Ref.S+"#"+Add(add.Off, IntT(k)).S]; ok {
				ev = flatten(fv)[ci]
			}
			row = StoreT(row, Add(res.Off, Add(s.Len, IntT(k))), ev)
		}
		x.writeRow(st, name, inner, res.Ref, row)
	}
	x.fwdDropPrefix(st, elemPrefix(et))
	return res
}

func (x *Exec) frameAppendActive() bool {
	if x.Contract == nil {
		return false
	}
	for _, m := range x.Contract.ModSrc {
		if m == "no-shared-append" {
			return true
		}
	}
	return false
}

func (x *Exec) fwdDropPrefix(st *State, prefix string) {
	for k := range st.Fwd {
		if strings.HasPrefix(k, prefix) {
			delete(st.Fwd, k)
		}
	}
}

func (x *Exec) copyOp(st *State, fr *Frame, cc *CallCtx) Val {
	dst, src := cc.Args[0], cc.Args[1]
	intT := types.Typ[types.Int]
	if dst.K != VSlice || src.K != VSlice {
		x.note(x.Outside, "copy on []byte in "+funcKey(fr.Fn))
		n := x.fresh(st, "copyn", SInt)
		st.assume(Ge(n, IntT(0)))
		if dst.K == VScalar {
			c := x.fresh(st, "copied", SStr)
			st.assume(Eq(StrLen(c), StrLen(x.bytesContent(st, dst.T))))
			x.writeComp(st, bytesArr, SStr, dst.T, c)
		}
		return scalar(n, intT)
	}
	et := dst.GoT.Underlying().(*types.Slice).Elem()
	n := Ite(Le(dst.Len, src.Len), dst.Len, src.Len)
	x.registerElemPrefix(elemPrefix(et), et)
	for _, cp := range comps(et) {
		name := elemPrefix(et) + cp.Suffix
		inner := arrSort(SInt, cp.Sort)
		srcRow := x.readRow(st, name, inner, src.Ref)
		dstRow := x.readRow(st, name, inner, dst.Ref)
		if dst.Len.S == src.Len.S && isLit(dst.Off, "0") && isLit(src.Off, "0") && isLit(Eq(dst.Len, dst.Cap), "true") {
			x.writeRow(st, name, inner, dst.Ref, srcRow)
			continue
		}
		row := x.fresh(st, "cprow", inner)
		i := "i!" + strconv.Itoa(x.uniq())
		st.addCmd(fmt.Sprintf("(assert (forall ((%s Int)) (! (= (select %s %s) (ite (and (<= %s %s) (< %s (+ %s %s))) (select %s (+ %s (- %s %s))) (select %s %s))) :pattern ((select %s %s)))))",
			i, row.S, i, dst.Off.S, i, i, dst.Off.S, n.S, srcRow.S, src.Off.S, i, dst.Off.S, dstRow.S, i, row.S, i))
		x.writeRow(st, name, inner, dst.Ref, row)
	}
	x.fwdDropPrefix(st, elemPrefix(et))
	return scalar(n, intT)
}

// ---------------------------------------------------------------- contracts at call sites

func (x *Exec) checkCallAsserts(st *State, fr *Frame, cc *CallCtx) {
	ct := x.contractFor(fr)
	if ct == nil || x.Mode == "summary" {
		return
	}
	for _, ca := range ct.CallAsrt {
		if !ca.forProp(x.Prop) {
			continue
		}
		if !calleeMatches(ca.Callee, cc.Name) {
			continue
		}
		extra := map[string]Val{}
		for i, a := range cc.Args {
			extra["arg"+strconv.Itoa(i)] = a
		}
		env, old := x.clauseEnv(st, fr, extra, nil)
		x.obligeParts(st, old, fr, ct, ca.E, env, x.obName(fr, "callassert."+clauseLabel(ca)+"."+cc.Site))
	}
}

func calleeMatches(pat, name string) bool {
	if pat == name {
		return true
	}
	// allow matching the last path element, e.g. x509.CreateCertificate for crypto/x509.CreateCertificate
	if strings.HasSuffix(name, "/"+pat) || strings.HasSuffix(name, "."+pat) {
		return true
	}
	if i := strings.LastIndex(name, "/"); i >= 0 && name[i+1:] == pat {
		return true
	}
	return false
}

// applyContract: assert requires, havoc modifies, assume ensures.
func (x *Exec) applyContract(st *State, fr *Frame, ct *Contract, fn *ssa.Function, cc *CallCtx) []Outcome {
	if fn == nil {
		return x.havocCall(st, cc, "contract "+ct.Key+" without function")
	}
	applied[ct.Key] = true
	env := map[string]Val{}
	args := cc.Args
	// free variables of a closure created on this path: their addresses are known
	for i, fv := range fn.FreeVars {
		if i < len(cc.Bind) {
			b := cc.Bind[i]
			if b.GoT == nil {
				b.GoT = fv.Type()
			}
			env["&"+fv.Name()] = b
		}
	}
	for i, p := range fn.Params {
		if i < len(args) {
			env[p.Name()] = args[i]
		}
	}
	x.aliasNames(fn, env)
	old := st.snapshot()
	// a callee whose contract speaks about now() reads the clock
	if contractUsesNow(ct) {
		x.readClock(st)
	}
	x.evalLets(st, old, ct, env)
	for _, rq := range ct.Requires {
		if len(rq.Props) > 0 && !rq.forProp(x.Prop) {
			continue
		}
		x.obligeParts(st, old, nil, ct, rq.E, env, x.obName(fr, "pre."+ct.Key+"."+clauseLabel(rq)+"."+cc.Site))
		st.assume(x.evalExprBool(st, old, nil, rq.E, env))
	}
	// havoc
	x.applyModifies(st, old, ct, env)
	// results
	var res []Val
	results := fn.Signature.Results()
	names := resultNames(fn)
	for i := 0; i < results.Len(); i++ {
		v := x.symValue(st, "r!"+sanitizeFile(ct.Key), results.At(i).Type(), false)
		x.bumpForVal(st, v)
		res = append(res, v)
		env[names[i]] = v
	}
	x.aliasNames(fn, env)
	defer func() {
		for _, v := range res {
			x.boundReachable(st, v, 0)
		}
		// ghost storage replaced by the callee: its records exist below the new watermark
		kinds := map[string]bool{}
		for _, p := range x.contractModPrefixes(ct, cc.Common) {
			if strings.HasPrefix(p, "St!rec!") {
				kinds[strings.TrimPrefix(p, "St!rec!")] = true
			} else if p == "St!" {
				for _, k := range kindOfType {
					kinds[k] = true
				}
			}
		}
		if len(kinds) > 0 {
			wm := x.define(st, "wmret", Add(st.AllocBase, IntT(int64(st.AllocN))))
			x.assumeHeapClosed(st, wm.S, kinds, true)
		}
	}()
	// clock: a contracted callee may read the clock
	for _, en := range ct.Ensures {
		if !en.forProp(x.Prop) {
			// proved by the check of the property it is tagged with; used here as a lemma
			x.note(x.Assumed, "callee clause proved under another property's check: "+ct.Key+"#ensures."+clauseLabel(en)+" ["+strings.Join(en.Props, ",")+"]")
		}
		g := x.evalExprBool(st, old, nil, en.E, env)
		st.assume(g)
	}
	return one(st, res...)
}

func resultNames(fn *ssa.Function) []string {
	results := fn.Signature.Results()
	names := make([]string, results.Len())
	for i := 0; i < results.Len(); i++ {
		n := results.At(i).Name()
		if n == "" || n == "_" {
			if results.Len() == 1 {
				n = "ret"
				if isErrorType(results.At(i).Type()) {
					n = "err"
				}
			} else if i == results.Len()-1 && isErrorType(results.At(i).Type()) {
				n = "err"
			} else if i == 0 {
				n = "ret"
			} else {
				n = "ret" + strconv.Itoa(i)
			}
		}
		names[i] = n
	}
	return names
}

func isErrorType(t types.Type) bool {
	n, ok := t.(*types.Named)
	return ok && n.Obj().Pkg() == nil && n.Obj().Name() == "error"
}

// ---------------------------------------------------------------- verifying a function body

func (x *Exec) verifyBody() {
	fn := x.TopFn
	ct := x.Contract
	st := x.newState()
	var args []Val
	x.Params = map[string]Val{}
	for _, p := range fn.Params {
		v := x.symValue(st, "p!"+p.Name(), p.Type(), true)
		args = append(args, v)
		x.Params[p.Name()] = v
	}
	var bind []Val
	for _, fv := range fn.FreeVars {
		v := x.symValue(st, "p!"+fv.Name(), fv.Type(), true)
		if _, isPtr := fv.Type().Underlying().(*types.Pointer); isPtr && v.K == VScalar {
			st.assume(Neq(v.T, IntT(0))) // a variable captured by reference: its address is never nil
		}
		bind = append(bind, v)
		// a captured variable is a pointer to its cell; expose the cell value under the name
		x.Params["&"+fv.Name()] = v
	}
	x.aliasNames(fn, x.Params)
	fr := x.pushFrame(st, fn, args, bind, nil, "", 0)
	_ = fr
	x.Old = st.snapshot()
	if ct != nil {
		env := x.paramEnv(st, fr)
		x.evalLets(st, x.Old, ct, env)
		for _, rq := range ct.Requires {
			if len(rq.Props) > 0 && !rq.forProp(x.Prop) {
				continue
			}
			g := x.evalExprBool(st, x.Old, fr, rq.E, env)
			st.assume(g)
			x.notePostEntry(st, fr, rq.E)
		}
		// vacuity guard: the precondition must be satisfiable
		x.oblige(st, x.TopKey+"#cover.requires", BoolT(true), "cover")
		x.Old = st.snapshot()
		// entry case splits (exhaustive by construction: cond / not cond)
		states := []*State{st}
		for _, sp := range ct.Splits {
			var next []*State
			for _, s := range states {
				c := x.evalExprBool(s, x.Old, s.top(), sp, x.paramEnvOf(env))
				alt := s.clone()
				s.assume(c)
				alt.assume(Not(c))
				next = append(next, s, alt)
			}
			states = next
		}
		for _, s := range states {
			x.run(s)
		}
		return
	}
	x.run(st)
}

func (x *Exec) paramEnvOf(env map[string]Val) map[string]Val {
	out := map[string]Val{}
	for k, v := range env {
		out[k] = v
	}
	return out
}

func (x *Exec) paramEnv(st *State, fr *Frame) map[string]Val {
	env := map[string]Val{}
	for k, v := range x.Params {
		env[k] = v
	}
	return env
}

func (x *Exec) checkReturn(st *State, fr *Frame, res []Val) {
	ct := x.Contract
	if ct == nil {
		return
	}
	env := x.paramEnv(st, fr)
	names := resultNames(fr.Fn)
	for i, r := range res {
		env[names[i]] = r
	}
	x.aliasNames(fr.Fn, env)
	x.evalLets(st, x.Old, ct, env)
	x.assumeFreshOnlyFrames(st)
	for _, en := range ct.Ensures {
		if !en.forProp(x.Prop) {
			continue
		}
		x.obligeParts(st, x.Old, fr, ct, en.E, env, x.TopKey+"#ensures."+clauseLabel(en))
		// cover: antecedent of an implication must be reachable on some return path
		if b, ok := en.E.(EBin); ok && b.Op == "==>" {
			ante := x.evalExprBool(st, x.Old, fr, b.L, env)
			key := x.TopKey + "#cover.ensures." + clauseLabel(en)
			likely := true
			if ev, ok := env["err"]; ok && !isLit(ev.T, "0") && st.Known.has(Neq(ev.T, IntT(0)).S) {
				likely = !exprMentionsErrNil(b.L)
			}
			limit := 5
			if likely {
				limit = 3000
			}
			if x.instCount[key] < limit && !isLit(ante, "false") {
				x.oblige(st, key, ante, "cover")
			}
		}
	}
	x.checkFrame(st, fr, ct, env)
}

// evalLets binds contract-level definitions.
func (x *Exec) evalLets(st *State, old *State, ct *Contract, env map[string]Val) {
	for _, l := range ct.Lets {
		v, err := x.evalExpr(&evalCtx{x: x, st: st, old: old, env: env}, l.E)
		if err != nil {
			x.errorf("%s: let %s: %v", ct.Key, l.Name, err)
			continue
		}
		env[l.Name] = v
	}
}

func (x *Exec) evalClause(st *State, fr *Frame, c *Clause, extra map[string]Val, old *State) Term {
	env := x.paramEnv(st, fr)
	if fr != nil && fr.Fn != x.TopFn {
		env = map[string]Val{}
	}
	for k, v := range extra {
		env[k] = v
	}
	if old == nil {
		old = x.Old
	}
	if ct := x.contractFor(fr); ct != nil && fr.Fn == x.TopFn {
		x.evalLets(st, old, ct, env)
	}
	return x.evalExprBool(st, old, fr, c.E, env)
}

// goalParts: the clause split into independently provable parts (conjunctions
// under implications / universal quantifiers, case splits on disjunctive
// antecedents), with boolean let-definitions expanded.
func (x *Exec) goalParts(ct *Contract, e Expr) []Expr {
	if ct != nil && len(ct.Lets) > 0 {
		lets := map[string]Expr{}
		for _, l := range ct.Lets {
			lets[l.Name] = substLets(l.E, lets)
		}
		e = substLets(e, lets)
	}
	return splitGoal(e)
}

func (x *Exec) obligeParts(st *State, old *State, fr *Frame, ct *Contract, e Expr, env map[string]Val, name string) {
	parts := x.goalParts(ct, e)
	var goals []Term
	okAll := true
	for _, part := range parts {
		v, err := x.evalExpr(&evalCtx{x: x, st: st, old: old, env: env, fr: fr, goal: true}, part)
		if err != nil || v.K != VScalar || v.T.Sort != SBool {
			// a conjunct that guards a later one may have been split off: prove the clause as a whole
			okAll = false
			break
		}
		goals = append(goals, v.T)
	}
	if !okAll {
		v, err := x.evalExpr(&evalCtx{x: x, st: st, old: old, env: env, fr: fr, goal: true}, e)
		g := BoolT(false)
		if err != nil {
			x.errorf("%s: %v", x.TopKey, err)
		} else if v.K != VScalar || v.T.Sort != SBool {
			x.errorf("%s: clause is not boolean: %v", x.TopKey, e)
		} else {
			g = v.T
		}
		x.oblige(st, name, g, "prove")
		return
	}
	for _, g := range goals {
		x.oblige(st, name, g, "prove")
	}
}

func (x *Exec) clauseEnv(st *State, fr *Frame, extra map[string]Val, old *State) (map[string]Val, *State) {
	env := x.paramEnv(st, fr)
	if fr != nil && fr.Fn != x.TopFn {
		env = map[string]Val{}
	}
	for k, v := range extra {
		env[k] = v
	}
	if old == nil {
		old = x.Old
	}
	if ct := x.contractFor(fr); ct != nil && fr.Fn == x.TopFn {
		x.evalLets(st, old, ct, env)
	}
	return env, old
}

func (x *Exec) evalExprBool(st *State, old *State, fr *Frame, e Expr, env map[string]Val) Term {
	v, err := x.evalExpr(&evalCtx{x: x, st: st, old: old, env: env, fr: fr}, e)
	if err != nil {
		x.errorf("%s: %v", x.TopKey, err)
		return BoolT(false)
	}
	if v.K != VScalar || v.T.Sort != SBool {
		x.errorf("%s: clause is not boolean: %v", x.TopKey, e)
		return BoolT(false)
	}
	return v.T
}

// isGenerated: protobuf-generated code is not inlined (treated as an external).
func (x *Exec) isGenerated(fn *ssa.Function) bool {
	pos := x.Prog.Fset.Position(fn.Pos())
	return strings.HasSuffix(pos.Filename, ".pb.go")
}

// exprMentionsErrNil: the antecedent contains the conjunct err == nil.
func exprMentionsErrNil(e Expr) bool {
	for _, c := range flattenAnd(e) {
		if b, ok := c.(EBin); ok && b.Op == "==" {
			if id, ok := b.L.(EIdent); ok && id.Name == "err" {
				if _, ok := b.R.(ENil); ok {
					return true
				}
			}
		}
	}
	return false
}

// assumeFreshOnlyFrames: an array whose writes on this path all went to objects
// allocated on this path still has its entry value on every entry object.
func (x *Exec) assumeFreshOnlyFrames(st *State) {
	names := make([]string, 0, len(st.Heap))
	for n := range st.Heap {
		names = append(names, n)
	}
	sort.Strings(names)
	for _, name := range names {
		if st.Dirty[name] || strings.HasPrefix(name, "St!") || strings.HasPrefix(name, "M!") {
			continue
		}
		var srt string
		if name == bytesArr {
			srt = arrSort(SInt, SStr)
		} else {
			for _, pss := range prefixRegistry {
				for _, p := range pss {
					if p[0] == name {
						srt = p[1]
					}
				}
			}
		}
		if srt == "" {
			continue
		}
		cur := st.Heap[name]
		init := "H0!" + name
		if o, ok := x.Old.Heap[name]; ok {
			if o == cur {
				continue
			}
			init = o
		} else {
			x.Reg.DeclareConst(init, srt)
			init = sym(init)
		}
		st.addCmd(fmt.Sprintf("(assert (forall ((r Int)) (! (=> (<= r %s) (= (select %s r) (select %s r))) :pattern ((select %s r)))))", st.WM0.S, cur, init, cur))
	}
}

func contractUsesNow(ct *Contract) bool {
	for _, l := range ct.Lets {
		if exprUsesNow(l.E) {
			return true
		}
	}
	for _, c := range ct.Ensures {
		if strings.Contains(c.Src, "now(") {
			return true
		}
	}
	return false
}

func exprUsesNow(e Expr) bool {
	switch v := e.(type) {
	case ECall:
		if v.Fn == "now" {
			return true
		}
		for _, a := range v.Args {
			if exprUsesNow(a) {
				return true
			}
		}
	case EBin:
		return exprUsesNow(v.L) || exprUsesNow(v.R)
	case EUn:
		return exprUsesNow(v.X)
	case ESel:
		return exprUsesNow(v.X)
	}
	return false
}

// boundReachable: everything reachable from a value returned by a call was
// allocated before the call returned (reference-valued fields of returned
// module messages are bounded by the current watermark).
func (x *Exec) boundReachable(st *State, v Val, depth int) {
	if v.K != VScalar || v.GoT == nil || depth > 2 {
		return
	}
	mt, ok := isTypesMsgPtr(v.GoT)
	if !ok {
		return
	}
	wm := x.define(st, "wmret", Add(st.AllocBase, IntT(int64(st.AllocN))))
	for _, f := range protoFields(mt) {
		fv := x.loadAddrPure(st, &Addr{Prefix: fieldPrefix(mt, f.Name()), Ref: v.T, T: f.Type()})
		var r Term
		switch fv.K {
		case VScalar:
			if fv.T.Sort != SInt {
				continue
			}
			switch f.Type().Underlying().(type) {
			case *types.Pointer, *types.Slice, *types.Map:
				r = fv.T
			default:
				continue
			}
		case VSlice:
			r = fv.Ref
		default:
			continue
		}
		if _, lit := litInt(r); lit {
			continue
		}
		st.assume(Implies(Neq(v.T, IntT(0)), And(Ge(r, IntT(0)), Le(r, wm))))
		if _, ok := isTypesMsgPtr(f.Type()); ok {
			x.boundReachable(st, fv, depth+1)
		}
	}
}

// pbGetter: protobuf-generated getters (x *T) GetF() are nil-safe reads of field F.
func (x *Exec) pbGetter(st *State, fn *ssa.Function, cc *CallCtx) ([]Outcome, bool) {
	name := fn.Name()
	if !strings.HasPrefix(name, "Get") || fn.Signature.Recv() == nil || cc.ResT.Len() != 1 || len(cc.Args) != 1 {
		return nil, false
	}
	pt, su, ok := derefStruct(fn.Signature.Recv().Type())
	if !ok {
		return nil, false
	}
	fname := strings.TrimPrefix(name, "Get")
	for i := 0; i < su.NumFields(); i++ {
		f := su.Field(i)
		if f.Name() != fname || !types.Identical(f.Type(), cc.ResT.At(0).Type()) {
			continue
		}
		recv := cc.Args[0]
		v := x.loadAddrPure(st, &Addr{Prefix: fieldPrefix(pt, fname), Ref: recv.T, T: f.Type()})
		zero := zeroVal(f.Type())
		fa, fz := flatten(v), flatten(zero)
		if len(fa) != len(fz) {
			return nil, false
		}
		ts := make([]Term, len(fa))
		for j := range fa {
			ts[j] = Ite(Eq(recv.T, IntT(0)), fz[j], fa[j])
		}
		out, _ := unflatten(f.Type(), ts)
		return one(st, out), true
	}
	return nil, false
}
