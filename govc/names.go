package main

// Source-level names used by contracts, and their recovery after a rename.
//
// Contracts name parameters, results, captured variables and (in loop
// invariants and call-site assertions) locals of the function they annotate.
// A maintainer who renames one of them has not changed any behaviour, yet a
// clause that mentions the old name could no longer be evaluated and the check
// would alarm. To keep such an edit quiet, the names of every function under
// contract are recorded (expected/names.json, rewritten together with the
// expected obligation lists, never at check time) and a name that a contract
// uses but the function no longer declares is re-bound:
//
//   parameters, results : by position;
//   captured variables,
//   locals              : to the one variable of the same type that the
//                         function declares now and did not declare when the
//                         table was written (no candidate or several: no
//                         re-binding, the clause fails to evaluate as before).
//
// A re-binding is reported as an assumption in the evidence. It can only make a
// clause speak about a variable of the same type that replaced the recorded
// one; the clause is then proved or refuted for that variable like any other.

import (
	"encoding/json"
	"go/ast"
	"go/types"
	"os"
	"path/filepath"
	"sort"

	"golang.org/x/tools/go/ssa"
)

type fnNames struct {
	Params   []string          `json:"params"`
	Results  []string          `json:"results"`
	FreeVars map[string]string `json:"freevars"`
	Locals   map[string]string `json:"locals"`
}

var (
	recordedNames map[string]*fnNames // expected/names.json
	currentNames  = map[*ssa.Function]*fnNames{}
	namesFile     string
)

func loadRecordedNames(verif string) {
	namesFile = filepath.Join(verif, "expected", "names.json")
	recordedNames = map[string]*fnNames{}
	if b, err := os.ReadFile(namesFile); err == nil {
		json.Unmarshal(b, &recordedNames)
	}
}

func typeStr(t types.Type) string {
	return types.TypeString(t, func(p *types.Package) string { return p.Path() })
}

// namesOf computes the declared names of fn from its syntax and type information.
func (p *Program) namesOf(fn *ssa.Function) *fnNames {
	if n, ok := currentNames[fn]; ok {
		return n
	}
	n := &fnNames{FreeVars: map[string]string{}, Locals: map[string]string{}}
	currentNames[fn] = n
	for _, q := range fn.Params {
		n.Params = append(n.Params, q.Name())
	}
	n.Results = resultNames(fn) // effective names: unnamed results are ret / err / retN
	for _, fv := range fn.FreeVars {
		t := fv.Type()
		if pt, ok := t.(*types.Pointer); ok {
			t = pt.Elem()
		}
		n.FreeVars[fv.Name()] = typeStr(t)
	}
	syn := fn.Syntax()
	if syn == nil {
		return n
	}
	var info *types.Info
	root := fn
	for root.Parent() != nil {
		root = root.Parent()
	}
	if root.Pkg != nil {
		for _, pk := range p.Pkgs {
			if pk.Types == root.Pkg.Pkg {
				info = pk.TypesInfo
			}
		}
	}
	if info == nil {
		return n
	}
	var body *ast.BlockStmt
	switch s := syn.(type) {
	case *ast.FuncDecl:
		body = s.Body
	case *ast.FuncLit:
		body = s.Body
	}
	if body == nil {
		return n
	}
	dup := map[string]bool{}
	ast.Inspect(body, func(nd ast.Node) bool {
		if _, isLit := nd.(*ast.FuncLit); isLit {
			return false
		}
		id, ok := nd.(*ast.Ident)
		if !ok || id.Name == "_" {
			return true
		}
		if v, ok := info.Defs[id].(*types.Var); ok && !v.IsField() {
			ts := typeStr(v.Type())
			if old, seen := n.Locals[id.Name]; seen && old != ts {
				dup[id.Name] = true // the same name at two types: never a re-binding candidate
			}
			n.Locals[id.Name] = ts
		}
		return true
	})
	for d := range dup {
		n.Locals[d] = "?ambiguous"
	}
	return n
}

// updateRecordedNames refreshes the table entries of the given functions.
func (p *Program) updateRecordedNames(fns []*ssa.Function) {
	for _, fn := range fns {
		recordedNames[funcKey(fn)] = p.namesOf(fn)
	}
	b, _ := json.MarshalIndent(recordedNames, "", " ")
	os.MkdirAll(filepath.Dir(namesFile), 0o755)
	os.WriteFile(namesFile, append(b, '\n'), 0o644)
}

// renamedTo: the current name of what the contracts of fn call name, when that
// name is no longer declared by fn. kind: "param", "result", "freevar", "local".
func (x *Exec) renamedTo(fn *ssa.Function, name string) (string, string, bool) {
	rec := recordedNames[funcKey(fn)]
	if rec == nil {
		return "", "", false
	}
	cur := x.Prog.namesOf(fn)
	for i, pn := range rec.Params {
		if pn == name && i < len(cur.Params) && len(cur.Params) == len(rec.Params) && cur.Params[i] != name && !contains(cur.Params, name) {
			return cur.Params[i], "param", true
		}
	}
	for i, rn := range rec.Results {
		if rn == name && rn != "" && i < len(cur.Results) && len(cur.Results) == len(rec.Results) && cur.Results[i] != name && !contains(cur.Results, name) {
			return cur.Results[i], "result", true
		}
	}
	pick := func(recM, curM map[string]string) (string, bool) {
		t, ok := recM[name]
		if !ok || t == "?ambiguous" {
			return "", false
		}
		if _, still := curM[name]; still {
			return "", false
		}
		var cands []string
		for cn, ctp := range curM {
			if _, was := recM[cn]; !was && ctp == t {
				cands = append(cands, cn)
			}
		}
		sort.Strings(cands)
		if len(cands) == 1 {
			return cands[0], true
		}
		return "", false
	}
	if n, ok := pick(rec.FreeVars, cur.FreeVars); ok {
		return n, "freevar", true
	}
	if n, ok := pick(rec.Locals, cur.Locals); ok {
		return n, "local", true
	}
	return "", "", false
}

func (x *Exec) noteRename(fn *ssa.Function, kind, old, cur string) {
	x.note(x.Assumed, "renamed "+kind+" in "+funcKey(fn)+": the contracts' "+old+" is read as "+cur+" (re-bound by position / unique type; expected/names.json)")
}

// aliasNames adds, for every recorded parameter, result and captured variable
// of fn whose name changed, the old name as an alias in env.
func (x *Exec) aliasNames(fn *ssa.Function, env map[string]Val) {
	rec := recordedNames[funcKey(fn)]
	if rec == nil {
		return
	}
	try := func(old, prefix string) {
		if old == "" || old == "_" {
			return
		}
		if _, ok := env[prefix+old]; ok {
			return
		}
		if cur, kind, ok := x.renamedTo(fn, old); ok {
			if v, ok := env[prefix+cur]; ok {
				env[prefix+old] = v
				x.noteRename(fn, kind, old, cur)
			}
		}
	}
	for _, n := range rec.Params {
		try(n, "")
	}
	for _, n := range rec.Results {
		try(n, "")
	}
	for n := range rec.FreeVars {
		try(n, "&")
	}
}
